#!/bin/sh
python3-vt - <<'PY'
import json,jsonschema,glob
jsonschema.validate(json.load(open('/verif/MANIFEST.json')),json.load(open('/root/.vp/MANIFEST.schema.json')))
for f in glob.glob('/verif/evidence/*.json'):
    jsonschema.validate(json.load(open(f)),json.load(open('/root/.vp/EVIDENCE.schema.json')))
    print('ok',f)
print('manifest valid')
PY
