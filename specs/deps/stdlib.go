// Assumed contracts on the standard library and third-party dependencies (DESIGN.md section 6, T4/T5).
// Every header below is `trusted`: it is printed in evidence and never counted as proved.

package deps

//@ ghostvar pubn int
//@ ghostvar pubsubj arr
//@ ghostvar pubreq arr

//@ trusted func (e error) Error() (s string)
//@   ensures true
//@ trusted func fmt.Sprintf(format string, a []interface{}) (s string)
//@   ensures true
//@ trusted func fmt.Errorf(format string, a []interface{}) (err error)
//@   ensures !isNil(err) && !typeIs(err, "*res.Error")
//@ trusted func debug.Stack() (b []byte)
//@   ensures true
//@ # JSON encoding of a Go string: jlen(s) bytes, the k-th being jchar(s, k); at least the two quotes
//@ uninterpreted func jlen(s string) int
//@   native len(verifJSON(s))
//@ uninterpreted func jchar(s string, k int) int
//@   native vAt(verifJSON(s), k)
//@ trusted func json.Marshal(v interface{}) (data []byte, err error)
//@   modifies alloc, bytes
//@   ensures fresh: freshbytes(data)
//@   ensures imp(isNil(err), len(data) >= 1 && ref(data) != 0)
//@   ensures imp(!isNil(err), !typeIs(err, "*res.Error"))
//@   ensures str: imp(typeIs(v, "string"), isNil(err) && len(data) == jlen(unbox(v, "string")) && jlen(unbox(v, "string")) >= 2 && forall(k, 0, len(data), data[k] == jchar(unbox(v, "string"), k)))
//@ # Unmarshal writes only through its target; fields absent from the JSON text keep their value
//@ trusted func json.Unmarshal(data []byte, v interface{}) (err error)
//@   modifies *v, alloc
//@   ensures imp(!isNil(err), !typeIs(err, "*res.Error"))
//@ trusted func strconv.FormatInt(i int64, base int) (s string)
//@   ensures len(s) >= 1
//@ trusted func strings.IndexByte(s string, c byte) (r int)
//@   ensures -1 <= r && r < len(s)
//@   ensures imp(r >= 0, s[r] == c && forall(k, 0, r, s[k] != c))
//@   ensures imp(r == -1, forall(k, 0, len(s), s[k] != c))
//@ trusted func strings.LastIndexByte(s string, c byte) (r int)
//@   ensures -1 <= r && r < len(s)
//@   ensures imp(r >= 0, s[r] == c && forall(k, r+1, len(s), s[k] != c))
//@   ensures imp(r == -1, forall(k, 0, len(s), s[k] != c))

//@ trusted func (l logger.Logger) Tracef(format string, v []interface{})
//@   ensures true
//@ trusted func (l logger.Logger) Errorf(format string, v []interface{})
//@   ensures true
//@ trusted func (l logger.Logger) Infof(format string, v []interface{})
//@   ensures true

//@ # nats: Publish is synchronous w.r.t. program order on one connection; it never panics.
//@ # The ghost publish log (pubn, pubsubj) records every call in order.
//@ trusted func (c res.Conn) Publish(subject string, payload []byte) (err error)
//@   modifies ghost.pubn
//@   ensures pubn == old(pubn) + 1

//@ # weak contracts for functions a changed body is likely to start calling: they keep the function
//@ # inside the subset so that its own postconditions decide (DESIGN.md 5.1)
//@ trusted func errors.As(err error, target interface{}) (ok bool)
//@   modifies all
//@ trusted func errors.Is(err error, target error) (ok bool)
//@   ensures true
//@ trusted func errors.Unwrap(err error) (res error)
//@   ensures true
//@ trusted func strings.HasPrefix(s string, prefix string) (ok bool)
//@   ensures ok == (len(prefix) <= len(s) && s[0:len(prefix)] == prefix)
//@ trusted func strings.HasSuffix(s string, suffix string) (ok bool)
//@   ensures ok == (len(suffix) <= len(s) && s[len(s)-len(suffix):] == suffix)
//@ trusted func strings.ContainsAny(s string, chars string) (ok bool)
//@   ensures ok == exists(i, 0, len(s), exists(j, 0, len(chars), s[i] == chars[j]))
//@ trusted func strings.Contains(s string, sub string) (ok bool)
//@   ensures true
//@ trusted func strings.IndexAny(s string, chars string) (r int)
//@   ensures -1 <= r && r < len(s)
//@ trusted func strings.Index(s string, sub string) (r int)
//@   ensures -1 <= r && r <= len(s)
//@ trusted func (p sync.Pool) Get() (x interface{})
//@   ensures true
//@ trusted func (p sync.Pool) Put(x interface{})
//@   ensures true

//@ trusted func bytes.Equal(a []byte, b []byte) (r bool)
//@   ensures r == (bytes(a) == bytes(b))
//@ trusted func bytes.HasPrefix(s []byte, prefix []byte) (r bool)
//@   ensures r == (len(prefix) <= len(s) && bytes(s)[0:len(prefix)] == bytes(prefix))
//@ # RawMessage.UnmarshalJSON copies the data (append to the truncated receiver)
//@ trusted func (m *json.RawMessage) UnmarshalJSON(data []byte) (err error)
//@   modifies alloc, bytes, *m
//@   ensures imp(m != nil, isNil(err) && bytes(*m) == bytes(data) && (ref(*m) == old(ref(*m)) || ref(*m) >= old(nextRef()) || len(data) == 0) && bytesframe(*m))

//@ # json.Unmarshal into a store.valueObject: RawMessage members are nil or a copy of a complete JSON value
//@ # what encoding/json decodes from a text into the members rid / soft / action / data is left uninterpreted (T4):
//@ # jvObj: the text decodes without error; jvHas*: the member is present and not null; the rest are the decoded values
//@ uninterpreted func jvObj(s string) bool
//@ uninterpreted func jvHasRID(s string) bool
//@ uninterpreted func jvRIDa(s string) arr
//@ uninterpreted func jvRIDn(s string) int
//@ uninterpreted func jvSoft(s string) bool
//@ uninterpreted func jvHasAction(s string) bool
//@ uninterpreted func jvActa(s string) arr
//@ uninterpreted func jvActn(s string) int
//@ uninterpreted func jvHasData(s string) bool
//@ uninterpreted func jvData0(s string) int
//@ trusted func json.UnmarshalValueObject(data []byte, v interface{}) (err error)
//@   modifies *v, alloc, bytes
//@   ensures imp(!isNil(err), !typeIs(err, "*res.Error"))
//@   ensures ok: isNil(err) == jvObj(old(bytes(data)))
//@   ensures rid: imp(isNil(err) && typeIs(v, "*store.valueObject"), (ptrOf(v, "*store.valueObject").RID != nil) == jvHasRID(old(bytes(data))) && imp(jvHasRID(old(bytes(data))), same(*ptrOf(v, "*store.valueObject").RID, strOf(jvRIDa(old(bytes(data))), jvRIDn(old(bytes(data)))))))
//@   ensures soft: imp(isNil(err) && typeIs(v, "*store.valueObject"), ptrOf(v, "*store.valueObject").Soft == jvSoft(old(bytes(data))))
//@   ensures action: imp(isNil(err) && typeIs(v, "*store.valueObject"), (ptrOf(v, "*store.valueObject").Action != nil) == jvHasAction(old(bytes(data))) && imp(jvHasAction(old(bytes(data))), same(*ptrOf(v, "*store.valueObject").Action, strOf(jvActa(old(bytes(data))), jvActn(old(bytes(data)))))))
//@   ensures data: imp(isNil(err) && typeIs(v, "*store.valueObject"), (ref(ptrOf(v, "*store.valueObject").Data) != 0) == jvHasData(old(bytes(data))) && imp(jvHasData(old(bytes(data))), ptrOf(v, "*store.valueObject").Data[0] == jvData0(old(bytes(data)))))
//@   ensures raw: imp(typeIs(v, "*store.valueObject") && ref(ptrOf(v, "*store.valueObject").Data) != 0, len(ptrOf(v, "*store.valueObject").Data) >= 1 && ref(ptrOf(v, "*store.valueObject").Data) >= old(nextRef()))


//@ # sync.WaitGroup: ghost counter of live workers (no fairness, no progress claims)
//@ ghostvar wgcount int
//@ trusted func (wg *sync.WaitGroup) Add(delta int)
//@   modifies ghost.wgcount
//@   ensures wgcount == old(wgcount) + delta
//@ trusted func (wg *sync.WaitGroup) Done()
//@   modifies ghost.wgcount
//@   ensures wgcount == old(wgcount) - 1
//@ trusted func (wg *sync.WaitGroup) Wait()
//@   modifies ghost.wgcount
//@   ensures wgcount == 0
//@ trusted func (c res.Conn) Close()
//@   modifies ghost.connClosed, ghost.connCloses
//@   ensures connClosed && connCloses == old(connCloses) + 1

//@ # closing a channel that a sender may still use panics in the sender: the connection must be closed first
//@ ghostvar connClosed bool
//@ ghostvar connCloses int
//@ func builtin.close(ch ref)
//@   requires quiet: connClosed

//@ # ---- client-side model of a store-backed resource (C10): the gateway applies remove/add events to
//@ # the collection it holds; cllen is its current length. An index outside the collection is a
//@ # protocol error, hence the preconditions.
//@ ghostvar cllen int
//@ trusted func (r res.Resource) RemoveEvent(idx int)
//@   requires inrange: 0 <= idx && idx < cllen
//@   modifies ghost.cllen
//@   ensures cllen == old(cllen) - 1
//@ trusted func (r res.Resource) AddEvent(v interface{}, idx int)
//@   requires inrange: 0 <= idx && idx <= cllen
//@   modifies ghost.cllen
//@   ensures cllen == old(cllen) + 1
//@ trusted func (r res.Resource) ChangeEvent(props map[string]interface{})
//@   ensures true
//@ trusted func (r res.Resource) CreateEvent(v interface{})
//@   ensures true
//@ trusted func (r res.Resource) DeleteEvent()
//@   ensures true

//@ # json.Unmarshal into a []store.Value held by the store handler: collections have fewer than 2^30 elements (T3)
//@ trusted func json.UnmarshalValues(data []byte, v interface{}) (err error)
//@   modifies *v, alloc
//@   ensures imp(!isNil(err), !typeIs(err, "*res.Error"))
//@   ensures small: imp(typeIs(v, "*[]store.Value"), len(*ptrOf(v, "*[]store.Value")) <= 1073741824)

//@ # store.Transformer implementations are client code: results are arbitrary, nothing of the handler changes
//@ trusted func (t store.Transformer) Transform(id string, v interface{}) (out interface{}, err error)
//@   modifies alloc
//@   ensures small: imp(typeIs(out, "[]store.Value"), len(unbox(out, "[]store.Value")) <= 1073741824)
//@ trusted func (t store.Transformer) IDToRID(id string, v interface{}, p res.Pattern) (rid string)
//@   ensures true
//@ trusted func (t store.Transformer) RIDToID(rid string, pathParams map[string]string) (id string)
//@   ensures true

//@ # nats subscriptions: the subscribe calls are recorded by ghost statements at the call sites
//@ trusted func (c res.Conn) ChanSubscribe(subject string, ch chan *nats.Msg) (sub *nats.Subscription, err error)
//@   modifies alloc, ghost.subopen
//@   ensures imp(isNil(err), sub != nil && subopen == old(subopen) + 1) && imp(!isNil(err), subopen == old(subopen))
//@ trusted func (c res.Conn) ChanQueueSubscribe(subject string, queue string, ch chan *nats.Msg) (sub *nats.Subscription, err error)
//@   modifies alloc
//@ trusted func errors.New(text string) (err error)
//@   ensures !isNil(err) && !typeIs(err, "*res.Error")

//@ # reader/writer locks: ghost counters of acquire/release operations (mutual exclusion itself is T4)
//@ ghostvar rlocks int
//@ ghostvar runlocks int
//@ ghostvar wlocks int
//@ ghostvar wunlocks int
//@ trusted func (m *sync.RWMutex) RLock()
//@   modifies ghost.rlocks
//@   ensures rlocks == old(rlocks) + 1
//@ trusted func (m *sync.RWMutex) RUnlock()
//@   modifies ghost.runlocks
//@   ensures runlocks == old(runlocks) + 1
//@ trusted func (m *sync.RWMutex) Lock()
//@   modifies ghost.wlocks
//@   ensures wlocks == old(wlocks) + 1
//@ trusted func (m *sync.RWMutex) Unlock()
//@   modifies ghost.wunlocks
//@   ensures wunlocks == old(wunlocks) + 1
//@ trusted func (k *keylock.KeyLock) RLock(key string)
//@   modifies ghost.rlocks
//@   ensures rlocks == old(rlocks) + 1
//@ trusted func (k *keylock.KeyLock) RUnlock(key string)
//@   modifies ghost.runlocks
//@   ensures runlocks == old(runlocks) + 1
//@ trusted func (k *keylock.KeyLock) Lock(key string)
//@   modifies ghost.wlocks
//@   ensures wlocks == old(wlocks) + 1
//@ trusted func (k *keylock.KeyLock) Unlock(key string)
//@   modifies ghost.wunlocks
//@   ensures wunlocks == old(wunlocks) + 1
//@ trusted func bytes.LastIndexByte(s []byte, c byte) (r int)
//@   ensures -1 <= r && r < len(s)
//@   ensures imp(r >= 0, s[r] == c && forall(k, r+1, len(s), s[k] != c))
//@   ensures imp(r == -1, forall(k, 0, len(s), s[k] != c))
//@
//@ # ---- request/response over NATS (C19) ----
//@ # subopen: inbox subscriptions currently open; pubreq: requests published; tmn/tmdur/tmstop: timers created, duration of
//@ # the timer created last, timers stopped
//@ ghostvar subopen int
//@ ghostvar pubreq int
//@ ghostvar tmn int
//@ ghostvar tmdur int
//@ ghostvar tmstop int
//@ trusted func nats.NewInbox() (s string)
//@   ensures len(s) > 0
//@ trusted func (c res.Conn) PublishRequest(subject string, reply string, data []byte) (err error)
//@   modifies ghost.pubreq
//@   ensures pubreq == old(pubreq) + 1
//@ trusted func (s *nats.Subscription) Unsubscribe() (err error)
//@   modifies ghost.subopen
//@   ensures subopen == old(subopen) - 1
//@ trusted func time.NewTimer(d time.Duration) (t *time.Timer)
//@   modifies ghost.tmn, ghost.tmdur, alloc
//@   ensures t != nil && tmn == old(tmn) + 1 && tmdur == d
//@ trusted func (t *time.Timer) Stop() (ok bool)
//@   modifies ghost.tmstop
//@   ensures tmstop == old(tmstop) + 1
//@ trusted func (tag reflect.StructTag) Lookup(key string) (value string, ok bool)
//@   ensures true
//@ trusted func strconv.Atoi(s string) (n int, err error)
//@   ensures true
//@ # NATS delivers non-nil messages on a channel subscription and never closes the channel
//@ trusted func builtin.selectInbox(index int, ok bool, t time.Time, msg *nats.Msg)
//@   ensures imp(index == 1, msg != nil)
//@ trusted func time.Now() (t time.Time)
//@   ensures true
//@ trusted func (t time.Time) Add(d time.Duration) (r time.Time)
//@   ensures true
//@ trusted func (t time.Time) After(u time.Time) (b bool)
//@   ensures true
//@ trusted func (t time.Time) Before(u time.Time) (b bool)
//@   ensures true
//@ trusted func (t time.Time) Sub(u time.Time) (d time.Duration)
//@   ensures true
//@ trusted func time.Until(t time.Time) (d time.Duration)
//@   ensures true
//@ trusted func time.Since(t time.Time) (d time.Duration)
//@   ensures true
//@
//@ # ---- query events (C15) ----
//@ # a channel that only the code under contract closes and nobody sends on; closing it twice would panic
//@ trusted func builtin.closeSignal(c chan struct{})
//@   requires once: !chclosed[ref(c)]
//@   modifies ghost.chclosed
//@   ensures chclosed == store(old(chclosed), ref(c), true)
//@ # Drain removes interest; messages in flight are still delivered, the channel is never closed by NATS
//@ ghostvar drained arrb
//@ trusted func (s *nats.Subscription) Drain() (err error)
//@   modifies ghost.drained
//@   ensures drained == store(old(drained), ref(s), true)
//@ trusted func builtin.selectQuery(index int, ok bool, m *nats.Msg, d struct{})
//@   ensures imp(index == 0, m != nil)
//@ ghostvar tqadded int
//@ trusted func (q *timerqueue.Queue) Add(v interface{})
//@   modifies ghost.tqadded
//@   ensures tqadded == old(tqadded) + 1
//@
//@ # strings.Builder: only that the calls do not fail (C06 group strings)
//@ trusted func (b *strings.Builder) WriteString(s string) (n int, err error)
//@   modifies *b, alloc
//@   ensures true
//@ trusted func (b *strings.Builder) String() (s string)
//@   ensures true
//@
//@ # ---- store query handler (C14): events announced on a resource, counted; client code behind callbacks
//@ ghostvar qevn int
//@ ghostvar qrst int
//@ trusted func builtin.qhAdd(r res.Resource, v interface{}, idx int)
//@   modifies ghost.qevn
//@   ensures qevn == old(qevn) + 1
//@ trusted func builtin.qhRemove(r res.Resource, idx int)
//@   modifies ghost.qevn
//@   ensures qevn == old(qevn) + 1
//@ trusted func builtin.qhChange(r res.Resource, props map[string]interface{})
//@   modifies ghost.qevn
//@   ensures qevn == old(qevn) + 1
//@ trusted func (r res.Resource) ResetEvent()
//@   modifies ghost.qrst
//@   ensures qrst == old(qrst) + 1
//@ trusted func (r res.Resource) ResourceName() (s string)
//@   ensures true
//@ trusted func (r res.Resource) PathParams() (m map[string]string)
//@   ensures true
//@ trusted func (qc store.QueryChange) Events(q url.Values) (evs []store.ResultEvent, reset bool, err error)
//@   modifies alloc
//@ trusted func (t store.QueryTransformer) TransformEvents(events []store.ResultEvent) (out []store.ResultEvent, err error)
//@   modifies alloc
//@ # tqdur: the duration a timer queue was created with (it cannot be changed afterwards)
//@ ghostvar tqdur arr
//@ trusted func timerqueue.New(cb func(v interface{}), d time.Duration) (q *timerqueue.Queue)
//@   modifies alloc, ghost.tqdur
//@   ensures q != nil && tqdur == store(old(tqdur), ref(q), d)
//@ # a channel that is local to one function and never sent on (serve's workCh): closing it cannot disturb a sender
//@ trusted func builtin.closeLocal(c chan *res.work)
//@   modifies ghost.chclosed
//@   ensures chclosed == store(old(chclosed), ref(c), true)
//@
//@ # ---- res.QueryRequest as seen by the store query handler (C14): answers and events, counted
//@ ghostvar qqans int
//@ ghostvar qqevn int
//@ trusted func (r res.QueryRequest) Error(err error)
//@   modifies ghost.qqans
//@   ensures qqans == old(qqans) + 1
//@ trusted func (r res.QueryRequest) Model(model interface{})
//@   modifies ghost.qqans
//@   ensures qqans == old(qqans) + 1
//@ trusted func (r res.QueryRequest) Collection(collection interface{})
//@   modifies ghost.qqans
//@   ensures qqans == old(qqans) + 1
//@ trusted func (r res.QueryRequest) AddEvent(v interface{}, idx int)
//@   modifies ghost.qqevn
//@   ensures qqevn == old(qqevn) + 1
//@ trusted func (r res.QueryRequest) RemoveEvent(idx int)
//@   modifies ghost.qqevn
//@   ensures qqevn == old(qqevn) + 1
//@ trusted func (r res.QueryRequest) ChangeEvent(props map[string]interface{})
//@   modifies ghost.qqevn
//@   ensures qqevn == old(qqevn) + 1
//@ trusted func (r res.QueryRequest) ResourceName() (s string)
//@   ensures true
//@ trusted func (r res.QueryRequest) PathParams() (m map[string]string)
//@   ensures true
//@ trusted func (r res.QueryRequest) ParseQuery() (q url.Values)
//@   modifies alloc
//@ trusted func (qs store.QueryStore) Query(q url.Values) (result interface{}, err error)
//@   modifies alloc
//@ trusted func (t store.QueryTransformer) TransformResult(v interface{}) (out interface{}, err error)
//@   modifies alloc
//@ # a query event is started on the resource (C15 covers what it does); nqev counts them
//@ ghostvar nqev int
//@ trusted func (r res.Resource) QueryEvent(cb func(res.QueryRequest))
//@   modifies ghost.nqev, alloc
//@   ensures nqev == old(nqev) + 1
