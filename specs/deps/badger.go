// Assumed contracts on BadgerDB v1.6.2, taskqueue, reflect (DESIGN.md section 6, T5).
package deps

//@ # A transaction sees a key/value map; kvhas[k]: key with id k is present (reads see own writes).
//@ # DB.Update(f) runs f once with a fresh transaction and commits iff f returns nil (rollback otherwise).
//@ ghostvar kvhas arrb
//@ trusted func (txn *badger.Txn) Get(key []byte) (item *badger.Item, err error)
//@   ensures found: imp(len(key) > 0 && kvhas[keyid(bytes(key))], isNil(err) && item != nil)
//@   ensures missing: imp(len(key) > 0 && !kvhas[keyid(bytes(key))], same(err, badger.ErrKeyNotFound))
//@   ensures empty: imp(len(key) == 0, !isNil(err) && !same(err, badger.ErrKeyNotFound))
//@ trusted func (txn *badger.Txn) Set(key []byte, val []byte) (err error)
//@   modifies ghost.kvhas
//@   ensures ok: imp(isNil(err), len(key) > 0 && kvhas == store(old(kvhas), keyid(bytes(key)), true))
//@   ensures failed: imp(!isNil(err), kvhas == old(kvhas))
//@   ensures empty: imp(len(key) == 0, !isNil(err))
//@ trusted func (txn *badger.Txn) Delete(key []byte) (err error)
//@   modifies ghost.kvhas
//@   ensures ok: imp(isNil(err), kvhas == store(old(kvhas), keyid(bytes(key)), false))
//@   ensures failed: imp(!isNil(err), kvhas == old(kvhas))
//@ trusted func (db *badger.DB) Update(fn func(*badger.Txn) error) (err error)
//@   applies fn rollback kvhas
//@ trusted func (db *badger.DB) View(fn func(*badger.Txn) error) (err error)
//@   applies fn rollback kvhas
//@
//@ trusted func reflect.ValueOf(i interface{}) (v reflect.Value)
//@   ensures true
//@ trusted func (v reflect.Value) Type() (t reflect.Type)
//@   ensures !isNil(t)
//@ trusted func (t reflect.Type) String() (s string)
//@   ensures true
