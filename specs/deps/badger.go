// Assumed contracts on BadgerDB v1.6.2, taskqueue, reflect (DESIGN.md section 6, T5).
package deps

//@ # A transaction sees a key/value map; kvhas[k]: key with id k is present (reads see own writes).
//@ # DB.Update(f) runs f once with a fresh transaction and commits iff f returns nil (rollback otherwise).
//@ ghostvar kvhas arrb
//@ trusted func (txn *badger.Txn) Get(key []byte) (item *badger.Item, err error)
//@   ensures found: imp(len(key) > 0 && kvhas[keyid(bytes(key))], isNil(err) && item != nil)
//@   ensures missing: imp(len(key) > 0 && !kvhas[keyid(bytes(key))], same(err, badger.ErrKeyNotFound))
//@   ensures empty: imp(len(key) == 0, !isNil(err) && !same(err, badger.ErrKeyNotFound))
//@   ensures sentinel: !isNil(badger.ErrKeyNotFound)
//@ trusted func (txn *badger.Txn) Set(key []byte, val []byte) (err error)
//@   modifies ghost.kvhas
//@   ensures ok: imp(isNil(err), len(key) > 0 && kvhas == store(old(kvhas), keyid(bytes(key)), true))
//@   ensures failed: imp(!isNil(err), kvhas == old(kvhas))
//@   ensures empty: imp(len(key) == 0, !isNil(err))
//@ trusted func (txn *badger.Txn) Delete(key []byte) (err error)
//@   modifies ghost.kvhas
//@   ensures ok: imp(isNil(err), kvhas == store(old(kvhas), keyid(bytes(key)), false))
//@   ensures failed: imp(!isNil(err), kvhas == old(kvhas))
//@ trusted func (db *badger.DB) Update(fn func(*badger.Txn) error) (err error)
//@   applies fn rollback kvhas commit
//@ trusted func (db *badger.DB) View(fn func(*badger.Txn) error) (err error)
//@   applies fn rollback kvhas
//@
//@ trusted func reflect.ValueOf(i interface{}) (v reflect.Value)
//@   ensures true
//@ trusted func (v reflect.Value) Type() (t reflect.Type)
//@   ensures !isNil(t)
//@ trusted func (t reflect.Type) String() (s string)
//@   ensures true
//@
//@ # ---- iterator (assumed, T5) -------------------------------------------------------------------
//@ # A prefix scan `for it.Seek(s); it.ValidForPrefix(p); it.Next()` enumerates the scan sequence
//@ # key(0), ..., key(itn-1): all keys of the transaction's view that have the prefix p, in ascending
//@ # bytewise order, or in descending order for a reverse iterator. key(i) has the bytes
//@ # skArr(i)[0..skLen(i)). itpos is the iterator's position in that sequence.
//@ #   forward:  Seek(p) positions at the smallest key >= p, which is key(0) when any key has the prefix.
//@ #   reverse:  Seek(s) positions at the largest key <= s. With s == p this is a key that has the prefix
//@ #             only when it IS p; with s == p ++ [0xFF] it is key(0) of the descending sequence,
//@ #             provided no key extends p ++ [0xFF] (stated assumption of the reverse scan).
//@ uninterpreted func skArr(p int) arr
//@ uninterpreted func skLen(p int) int
//@ ghostvar itn int
//@ ghostvar itpos int
//@ ghostvar itrev bool
//@ ghostvar itopen int
//@ ghostvar itseek string
//@ trusted func (txn *badger.Txn) NewIterator(opt badger.IteratorOptions) (it *badger.Iterator)
//@   modifies ghost.itrev, ghost.itopen, alloc
//@   ensures it != nil && itrev == opt.Reverse && itopen == old(itopen) + 1
//@ trusted func (it *badger.Iterator) Close()
//@   modifies ghost.itopen
//@   ensures itopen == old(itopen) - 1
//@ trusted func (it *badger.Iterator) Seek(key []byte)
//@   modifies ghost.itpos, ghost.itseek
//@   ensures itpos == 0 && itn >= 0 && same(itseek, bytes(key))
//@ trusted func (it *badger.Iterator) Next()
//@   modifies ghost.itpos
//@   ensures itpos == old(itpos) + 1
//@ trusted func (it *badger.Iterator) ValidForPrefix(prefix []byte) (ok bool)
//@   ensures sound: imp(ok, 0 <= itpos && itpos < itn && skLen(itpos) >= len(prefix))
//@   ensures fwd: imp(!itrev && itseek == bytes(prefix), ok == (0 <= itpos && itpos < itn))
//@   ensures rev.ff: imp(itrev && len(itseek) == len(prefix) + 1 && itseek[0:len(prefix)] == bytes(prefix) && itseek[len(prefix)] == 255, ok == (0 <= itpos && itpos < itn))
//@   ensures rev.same: imp(itrev && itseek == bytes(prefix) && ok, skLen(itpos) == len(prefix))
//@ trusted func (it *badger.Iterator) Item() (item *badger.Item)
//@   ensures item != nil
//@ trusted func (item *badger.Item) Key() (k []byte)
//@   ensures ref(k) != 0 && same(bytes(k), strOf(skArr(itpos), skLen(itpos))) && cap(k) >= len(k)
//@
//@ # ---- taskqueue.TaskQueue (assumed, T5) ----------------------------------------------------------
//@ # Tasks run one at a time, in the order queued, on the queue's goroutine.
//@ # tqn: tasks queued so far; tqdone: tasks that have run to completion (tqdone <= tqn, never decreases).
//@ # The queue's own Flush returns when no task is waiting; the task dequeued last may still be running.
//@ ghostvar tqn int
//@ ghostvar tqdone int
//@ ghostvar chtask arr
//@ ghostvar chclosed arrb
//@ trusted func (tq *taskqueue.TaskQueue) Do(task func())
//@   modifies ghost.tqn, ghost.tqdone
//@   ensures tqn == old(tqn) + 1 && old(tqdone) <= tqdone && tqdone <= tqn
//@ trusted func (tq *taskqueue.TaskQueue) TryDo(task func()) (ok bool)
//@   modifies ghost.tqn, ghost.tqdone
//@   ensures tqn == old(tqn) + ite(ok, 1, 0) && old(tqdone) <= tqdone && tqdone <= tqn
//@ trusted func (tq *taskqueue.TaskQueue) Flush()
//@   modifies ghost.tqdone
//@   ensures old(tqdone) <= tqdone && tqdone <= tqn && tqdone >= tqn - 1
//@ # chtask[c] = k > 0: channel c is closed by the k-th queued task and by nobody else. A receive from such a
//@ # channel returns after that task has started, hence after the k-1 tasks queued before it have completed.
//@ trusted func builtin.recvQueued(c chan struct{}) (v struct{})
//@   modifies ghost.tqdone
//@   ensures old(tqdone) <= tqdone && tqdone <= tqn && imp(chtask[ref(c)] > 0, tqdone >= chtask[ref(c)] - 1)
//@ trusted func builtin.closeQueued(c chan struct{})
//@   modifies ghost.chclosed
//@   ensures chclosed == store(old(chclosed), ref(c), true)
//@
//@ # ---- DropPrefix and the pieces RebuildIndexes uses (assumed, T5) ----
//@ # kpre(p, k): the key with identity k has the byte prefix whose identity is p. ndrop counts DropPrefix calls.
//@ uninterpreted func kpre(p int, k int) bool
//@ ghostvar ndrop int
//@ trusted func (db *badger.DB) DropPrefix(prefixes [][]byte) (err error)
//@   modifies ghost.kvhas, ghost.ndrop
//@   ensures count: ndrop == old(ndrop) + 1
//@   ensures dropped: imp(isNil(err) && len(prefixes) == 1, forallint(k, kvhas[k] == (old(kvhas)[k] && !kpre(keyid(bytes(prefixes[0])), k))))
//@   ensures failed: imp(!isNil(err), forallint(k, imp(kvhas[k], old(kvhas)[k])))
//@ trusted func reflect.TypeOf(i interface{}) (t reflect.Type)
//@   ensures true
//@ trusted func reflect.New(t reflect.Type) (v reflect.Value)
//@   modifies alloc
//@ trusted func (v reflect.Value) Interface() (i interface{})
//@   ensures true
//@ trusted func (v reflect.Value) Elem() (e reflect.Value)
//@   ensures true
//@ trusted func (item *badger.Item) KeyCopy(dst []byte) (k []byte)
//@   modifies alloc, bytes
//@   ensures ref(k) != 0 && bytes(k) == strOf(skArr(itpos), skLen(itpos)) && freshbytes(k)
//@ trusted func (item *badger.Item) Value(fn func(val []byte) error) (err error)
//@   applies fn
//@ # json.Unmarshal into the object reflect.New has just allocated: nothing that existed before is written
//@ trusted func json.UnmarshalFresh(data []byte, v interface{}) (err error)
//@   modifies alloc
//@ trusted func (m encoding.BinaryMarshaler) MarshalBinary() (data []byte, err error)
//@   modifies alloc
//@ trusted func (u encoding.BinaryUnmarshaler) UnmarshalBinary(data []byte) (err error)
//@   modifies alloc
