#!/bin/sh
# runs every claimed check on the current tree and refreshes the committed evidence
cd /verif
fail=0
for p in $(python3 -c "import json;print(' '.join(c['property_id'] for c in json.load(open('/verif/MANIFEST.json'))['checks']))"); do
  out=$(./check $p --tier ${1:-quick} 2>&1); rc=$?
  echo "$out" | tail -1; echo "$out" | grep -q UNDECIDED && { echo "$out" | grep UNDECIDED; fail=1; }
  [ $rc -ne 0 ] && { echo "$out" | grep -v "^KNOWN" | head -5; fail=1; }
done
./validate.sh >/dev/null && echo "evidence valid" || { echo "EVIDENCE INVALID"; fail=1; }
exit $fail
