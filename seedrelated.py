#!/usr/bin/env python3
# seedrelated.py <patch>: the properties whose functions under contract live in the files a patch touches
import re,sys
m={'mux.go':'C05 C06 C08 C09','group.go':'C06','request.go':'C04 C05 C07 C18','service.go':'C01 C02 C03 C05 C07 C09 C15','worker.go':'C01 C02 C03',
 'resource.go':'C07 C08 C15','queryevent.go':'C15 C07','store/transformer.go':'C10 C17','pattern.go':'C17 C07','errors.go':'C05 C07 C04','store/storehandler.go':'C10','store/value.go':'C18 C10',
 'store/querystorehandler.go':'C14','store/badgerstore/store.go':'C11 C12 C13 C14','store/badgerstore/querystore.go':'C13 C14 C12','store/badgerstore/index.go':'C13 C14 C12',
 'store/mockstore/store.go':'C11','resprot/resprot.go':'C18 C19','codes.go':'C07 C05'}
out=[]
for f in re.findall(r'^\+\+\+ b/(\S+)',open(sys.argv[1]).read(),re.M):
    out+=m.get(f,'').split()
print(' '.join(sorted(set(out))))
