#!/usr/bin/env python3
# Regenerates MANIFEST.json from specs/manifest_src.json (claimed checks) and properties.jsonl.
import json, subprocess
src = json.load(open('/verif/specs/manifest_src.json'))
props = [json.loads(l) for l in open('/verif/properties.jsonl')]
hooks = subprocess.run(['git','-C','/repo','log','--format=%H %s'],capture_output=True,text=True).stdout.splitlines()
hook_commits = [l.split()[0] for l in hooks if l.split(' ',1)[1].startswith('verif:')]
checks=[]; na=[]
for p in props:
    i=p['id']
    if i in src['claimed']:
        c=src['claimed'][i]
        checks.append({
          "property_id": i,
          "quick_cmd": "./check %s --tier quick"%i,
          "thorough_cmd": "./check %s --tier thorough"%i,
          "evidence_file": "/verif/evidence/%s.json"%i,
          "replay_cmd_template": "./check %s --replay {path}"%i,
          "engine": "govc",
          "level_claimed": {"category":"proof","text":c['text'],"design_ref":c.get('design_ref','DESIGN.md section 9 / '+i)},
          "level_note": c['note'],
          "technique": c.get('technique',"contract-based deductive verification: contracts on the real functions, VCs generated from go/ssa, discharged by z3/cvc5"),
        })
    else:
        na.append({"property_id": i, "reason": src['not_applicable'].get(i, "contract not completed yet: no obligations of this property are generated and discharged so far")})
m={"version":1,
   "setup_cmd":"cd /verif/govc && GOFLAGS=-mod=mod GOPROXY=off GOSUMDB=off GOTOOLCHAIN=local go build -o /verif/bin/govc .",
   "hooks":{"guard":"verif","enable":"go/packages load and replay tests use -tags verif; contract files zz_contracts_verif.go are comment-only behind //go:build verif",
            "baseline_off_cmd":"cd /repo && GOFLAGS=-mod=mod GOPROXY=off GOSUMDB=off go test -json -vet=off -count=1 -timeout 25m ./...",
            "source_commits":hook_commits,"add_only":True},
   "engines":[{"name":"govc","path":"/verif/govc","serves_properties":sorted(src['claimed'].keys()),
               "kind_free_text":"home-made deductive verifier for a Go subset: contracts as //@ comments in /repo/**/zz_contracts_verif.go, verification conditions generated from go/ssa (NaiveForm) per function, one SMT-LIB query per obligation, raced on z3 5.1 / cvc5 1.0.3 / z3 4.8.12; failed obligations replayed on the real code with go test -overlay"}],
   "checks":checks,
   "not_applicable":na,
   "notes":src.get('notes','')}
json.dump(m,open('/verif/MANIFEST.json','w'),indent=1)
print("claimed:",[c['property_id'] for c in checks])
