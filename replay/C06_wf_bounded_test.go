// pkg: .
// BOUNDED stand-in for the registration side of property C06 (never counted as proved).
// For every set of at most N patterns over the token alphabet {a, b, $x, $y, *, >} with at most three tokens,
// registered directly and, for the patterns starting with "a", through a Mux mounted at "a":
//   - registration panics exactly for invalid and conflicting patterns (same node, different placeholder names),
//   - the representation invariant WF of the node tree (the precondition of the proved lookup) holds,
//   - for every name over {a, b, c} with up to four tokens GetHandler returns the handler of the most specific
//     matching pattern (literal beats placeholder beats full wildcard, token by token from the left), the
//     placeholder values and the substituted group; lookup never panics.
package res

import (
	"fmt"
	"strings"
	"testing"
)

const verifBound = /*BOUND*/0

// ---- the invariant, as stated in the contracts (zz_contracts_verif.go: nodeOK / childOK / nodeInv)
func verifWF(t *testing.T, where string, n *node, nr int) {
	if n.mounted {
		nr = 0
		if len(n.params) != 0 {
			t.Errorf("VERIF-REPLAY-FAIL %s: mounted node with params", where)
		}
	}
	for _, pp := range n.params {
		if pp.idx < 0 || pp.idx >= nr {
			t.Errorf("VERIF-REPLAY-FAIL %s: WF broken: param %q idx %d not in [0,%d)", where, pp.name, pp.idx, nr)
		}
	}
	if n.hs != nil {
		for _, gp := range n.hs.group {
			if gp.str == "" && (gp.idx < 0 || gp.idx >= nr) {
				t.Errorf("VERIF-REPLAY-FAIL %s: WF broken: group tag idx %d not in [0,%d)", where, gp.idx, nr)
			}
		}
	}
	if n.param != nil {
		verifWF(t, where, n.param, nr+1)
	}
	if n.wild != nil {
		verifWF(t, where, n.wild, nr+1)
	}
	for _, c := range n.nodes {
		if c == nil {
			t.Errorf("VERIF-REPLAY-FAIL %s: nil child", where)
			continue
		}
		verifWF(t, where, c, nr+1)
	}
}

// ---- reference semantics
func verifRank(tok string) int {
	switch {
	case tok == ">":
		return 2
	case tok[0] == '$' || tok == "*":
		return 1
	}
	return 0
}

func verifMatch(pat, name []string) bool {
	for i, p := range pat {
		if p == ">" {
			return len(name) > i
		}
		if i >= len(name) {
			return false
		}
		if verifRank(p) == 0 && p != name[i] {
			return false
		}
	}
	return len(pat) == len(name)
}

// more specific: compare token by token from the left
func verifMoreSpecific(a, b []string) bool {
	for i := 0; i < len(a) && i < len(b); i++ {
		if ra, rb := verifRank(a[i]), verifRank(b[i]); ra != rb {
			return ra < rb
		}
	}
	return false
}

// same node: equal after erasing placeholder names
func verifShape(p []string) string {
	var s []string
	for _, t := range p {
		if t[0] == '$' {
			t = "*"
		}
		s = append(s, t)
	}
	return strings.Join(s, ".")
}

func verifValid(p []string) bool {
	seen := map[string]bool{}
	for i, t := range p {
		if t == ">" && i != len(p)-1 {
			return false
		}
		if t[0] == '$' {
			if seen[t] {
				return false
			}
			seen[t] = true
		}
	}
	return true
}

func verifParamSig(p []string) string {
	var s []string
	for i, t := range p {
		if t[0] == '$' {
			s = append(s, fmt.Sprintf("%s@%d", t, i))
		}
	}
	return strings.Join(s, ",")
}

func TestVerifReplay(t *testing.T) {
	alpha := []string{"a", "b", "$x", "$y", "*", ">"}
	var pats [][]string
	var gen func(cur []string)
	gen = func(cur []string) {
		if len(cur) > 0 {
			pats = append(pats, append([]string{}, cur...))
		}
		if len(cur) == 3 {
			return
		}
		for _, a := range alpha {
			gen(append(cur, a))
		}
	}
	gen(nil)
	var names [][]string
	var gen2 func(cur []string)
	gen2 = func(cur []string) {
		if len(cur) > 0 {
			names = append(names, append([]string{}, cur...))
		}
		if len(cur) == 4 {
			return
		}
		for _, a := range []string{"a", "b", "c"} {
			gen2(append(cur, a))
		}
	}
	gen2(nil)
	n := 0
	groupOf := func(p []string) string {
		for _, tk := range p {
			if tk[0] == '$' {
				return "g.${" + tk[1:] + "}.z"
			}
		}
		return "fixed"
	}
	checkSet := func(set [][]string, mounted bool) {
		n++
		where := fmt.Sprintf("patterns %v mounted=%v", set, mounted)
		m := NewMux("test")
		var sub *Mux
		if mounted {
			sub = NewMux("")
			m.Mount("a", sub)
		}
		var reg [][]string
		for k, p := range set {
			// expected outcome of the registration
			expectPanic := !verifValid(p)
			for _, q := range reg {
				if verifShape(q) == verifShape(p) {
					expectPanic = true // same node: duplicate handler (or placeholder mismatch)
				}
			}
			if mounted && len(p) == 1 && p[0] == "a" {
				// a handler on the mount point itself is registered on the root of the sub Mux
			}
			panicked := func() (pn bool) {
				defer func() {
					if recover() != nil {
						pn = true
					}
				}()
				h := Handler{Group: groupOf(p), Get: func(r GetRequest) { r.NotFound() }, Type: ResourceType(k + 10)}
				if mounted && p[0] == "a" && len(p) > 1 && k%2 == 0 {
					sub.AddHandler(strings.Join(p[1:], "."), h) // registered on the sub Mux
				} else {
					m.AddHandler(strings.Join(p, "."), h) // registered on the parent (through the mount point)
				}
				return false
			}()
			if panicked != expectPanic {
				t.Errorf("VERIF-REPLAY-FAIL %s: registering %v: panicked=%v, expected %v", where, p, panicked, expectPanic)
				return
			}
			if panicked {
				return // the tree may be partially updated; the set is not an accepted set
			}
			reg = append(reg, p)
		}
		verifWF(t, where, m.root, 0)
		for _, name := range names {
			// reference
			best := -1
			for i, p := range reg {
				if verifMatch(p, name) && (best < 0 || verifMoreSpecific(p, reg[best])) {
					best = i
				}
			}
			var mh *Match
			func() {
				defer func() {
					if v := recover(); v != nil {
						t.Errorf("VERIF-REPLAY-FAIL %s: GetHandler(%v) panicked: %v", where, name, v)
					}
				}()
				mh = m.GetHandler("test." + strings.Join(name, "."))
			}()
			if best < 0 {
				if mh != nil {
					t.Errorf("VERIF-REPLAY-FAIL %s: GetHandler(%v) matched although no pattern matches", where, name)
				}
				continue
			}
			if mh == nil {
				t.Errorf("VERIF-REPLAY-FAIL %s: GetHandler(%v) found nothing, %v matches", where, name, reg[best])
				continue
			}
			p := reg[best]
			want := -1
			for k, q := range set {
				if verifShape(q) == verifShape(p) && verifParamSig(q) == verifParamSig(p) && strings.Join(q, ".") == strings.Join(p, ".") {
					want = k + 10
					break
				}
			}
			if int(mh.Handler.Type) != want {
				t.Errorf("VERIF-REPLAY-FAIL %s: GetHandler(%v) returned the handler of another pattern than the most specific %v", where, name, p)
			}
			wantGroup := "fixed"
			for i, tk := range p {
				if tk[0] == '$' {
					if mh.Params[tk[1:]] != name[i] {
						t.Errorf("VERIF-REPLAY-FAIL %s: GetHandler(%v) reports %s=%q, the token at that position is %q", where, name, tk, mh.Params[tk[1:]], name[i])
					}
					if wantGroup == "fixed" {
						wantGroup = "g." + name[i] + ".z"
					}
				}
			}
			if mh.Group != wantGroup {
				t.Errorf("VERIF-REPLAY-FAIL %s: GetHandler(%v) reports group %q, want %q", where, name, mh.Group, wantGroup)
			}
		}
	}
	var rec func(set [][]string, from int)
	rec = func(set [][]string, from int) {
		if len(set) > 0 {
			checkSet(set, false)
			checkSet(set, true)
		}
		if len(set) == verifBound || t.Failed() {
			return
		}
		for i := from; i < len(pats); i++ {
			rec(append(set, pats[i]), i)
		}
	}
	rec(nil, 0)
	t.Logf("VERIF-REPLAY-CASES %d", n)
}
