// pkg: store/badgerstore
// Scenario replay for the obligations of IndexQuery.FetchCollection (property C13) on a real BadgerDB:
// the result of a query must equal the reference: the ids of the stored values whose index key has the
// prefix and passes the filter, ordered by (key, id) - reversed for Reverse - cut by offset and limit.
package badgerstore

import (
	"bytes"
	"os"
	"reflect"
	"sort"
	"testing"

	"github.com/dgraph-io/badger"
)

func TestVerifReplay(t *testing.T) {
	dir, err := os.MkdirTemp("", "verifbadger")
	if err != nil {
		t.Fatal(err)
	}
	defer os.RemoveAll(dir)
	db, err := badger.Open(badger.DefaultOptions(dir).WithLogger(nil))
	if err != nil {
		t.Fatal(err)
	}
	defer db.Close()
	idx := Index{Name: "idx", Key: func(v interface{}) []byte { return nil }}
	type ent struct{ key, id string }
	ents := []ent{{"a", "1"}, {"ab", "2"}, {"ab", "3"}, {"abc", "4"}, {"b", "5"}, {"", "6"}, {"a\xfe", "7"}}
	if err := db.Update(func(txn *badger.Txn) error {
		for _, e := range ents {
			if err := txn.Set(idx.getKey([]byte(e.id), []byte(e.key)), nil); err != nil {
				return err
			}
		}
		// neighbours in the key space that are not entries of this index
		if err := txn.Set([]byte("idw:zz\x00x"), nil); err != nil {
			return err
		}
		return txn.Set([]byte("idy:\x00y"), nil)
	}); err != nil {
		t.Fatal(err)
	}
	n := 0
	for _, prefix := range []string{"", "a", "ab", "abc", "abcd", "b", "c"} {
		for _, reverse := range []bool{false, true} {
			for _, useFilter := range []bool{false, true} {
				for _, offset := range []int{-1, 0, 1, 2} {
					for _, limit := range []int{-1, 0, 1, 2, 10} {
						var filter func([]byte) bool
						if useFilter {
							filter = func(k []byte) bool { return !bytes.Equal(k, []byte("ab")) }
						}
						// reference
						var sel []ent
						for _, e := range ents {
							if len(e.key) >= len(prefix) && e.key[:len(prefix)] == prefix && (filter == nil || filter([]byte(e.key))) {
								sel = append(sel, e)
							}
						}
						sort.Slice(sel, func(i, j int) bool {
							if sel[i].key != sel[j].key {
								return sel[i].key < sel[j].key
							}
							return sel[i].id < sel[j].id
						})
						if reverse {
							for i, j := 0, len(sel)-1; i < j; i, j = i+1, j-1 {
								sel[i], sel[j] = sel[j], sel[i]
							}
						}
						want := []string{}
						o := offset
						if o < 0 {
							o = 0
						}
						for i := o; i < len(sel) && (limit < 0 || len(want) < limit); i++ {
							want = append(want, sel[i].id)
						}
						iq := &IndexQuery{Index: idx, KeyPrefix: []byte(prefix), FilterKeys: filter, Offset: offset, Limit: limit, Reverse: reverse}
						got, err := iq.FetchCollection(db)
						n++
						if err != nil {
							t.Errorf("VERIF-REPLAY-FAIL prefix=%q reverse=%v filter=%v offset=%d limit=%d: error %v", prefix, reverse, useFilter, offset, limit, err)
							continue
						}
						if got == nil {
							got = []string{}
						}
						if !reflect.DeepEqual(got, want) {
							t.Errorf("VERIF-REPLAY-FAIL prefix=%q reverse=%v filter=%v offset=%d limit=%d: got %v, reference scan gives %v", prefix, reverse, useFilter, offset, limit, got, want)
						}
					}
				}
			}
		}
	}
	t.Logf("VERIF-REPLAY-CASES %d", n)
}
