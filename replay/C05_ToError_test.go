// pkg: .
// Scenario replay for the contract of ToError / InternalError (properties C05, C07):
//   err is a *Error           ==> ToError(err) is that very value
//   err is any other error    ==> ToError(err).Code == system.internalError
package res

import (
	"encoding/json"
	"errors"
	"fmt"
	"testing"
)

type verifMarshalErr struct{ e error }

func (v verifMarshalErr) MarshalJSON() ([]byte, error) { return nil, v.e }

func TestVerifReplay(t *testing.T) {
	_, merr := json.Marshal(verifMarshalErr{ErrNotFound})
	cases := []error{errors.New("plain"), fmt.Errorf("wrapped: %w", ErrNotFound), fmt.Errorf("twice: %w", fmt.Errorf("w: %w", ErrAccessDenied)), merr,
		ErrNotFound, &Error{Code: "custom", Message: "m"}}
	n := 0
	for _, err := range cases {
		n++
		got := ToError(err)
		if re, ok := err.(*Error); ok {
			if got != re {
				t.Errorf("VERIF-REPLAY-FAIL ToError(%#v) is not the same *Error value", err)
			}
		} else if got == nil || got.Code != CodeInternalError {
			t.Errorf("VERIF-REPLAY-FAIL ToError(%T %q) = %+v, want code system.internalError", err, err.Error(), got)
		}
	}
	t.Logf("VERIF-REPLAY-CASES %d", n)
}
