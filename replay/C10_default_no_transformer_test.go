// pkg: test
// Scenario replay for obligations store.storeHandler.changeHandler#ghost.call_Resource.CreateEvent_1_before.create.only-if-unserved
// and ...DeleteEvent_1_before.delete.only-if-unserved (property C10): a store handler with a Default value and no
// transformer. get serves the default for an id without stored value, so a client holds the default; a store Create must
// then be announced as a change from the default (not as "create"), and a Delete as a change back to it (not "delete").
package test

import (
	"testing"

	res "github.com/jirenius/go-res"
	"github.com/jirenius/go-res/restest"
	"github.com/jirenius/go-res/store"
)

type verifStore struct{ cb func(id string, before, after interface{}) }

func (s *verifStore) Read(id string) store.ReadTxn                                        { return nil }
func (s *verifStore) Write(id string) store.WriteTxn                                      { return nil }
func (s *verifStore) OnChange(cb func(id string, before, after interface{}))        { s.cb = cb }

func TestVerifReplay(t *testing.T) {
	st := &verifStore{}
	s := res.NewService("test")
	s.SetLogger(nil)
	s.Handle("model.$id", res.Model, store.Handler{Store: st, Default: map[string]interface{}{"name": "none"}})
	c := restest.NewSession(t, s)
	defer c.Close()
	// store create: before == nil, after == value. The client already holds the default.
	st.cb("test.model.1", nil, map[string]interface{}{"name": "foo"})
	ev := c.GetMsg()
	n := 1
	if ev.Subject != "event.test.model.1.change" {
		t.Errorf("VERIF-REPLAY-FAIL store create on a resource served by its default published %q, want a change event", ev.Subject)
	}
	n++
	st.cb("test.model.1", map[string]interface{}{"name": "foo"}, nil)
	ev = c.GetMsg()
	if ev.Subject != "event.test.model.1.change" {
		t.Errorf("VERIF-REPLAY-FAIL store delete on a resource served by its default published %q, want a change event", ev.Subject)
	}
	t.Logf("VERIF-REPLAY-CASES %d", n)
}
