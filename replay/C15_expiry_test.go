// pkg: .
// Scenario replay for property C15 on a running service with a recording connection:
//  (a) obligation res.queryEvent.startQueryListener (callback never invoked again after the final nil call):
//      a query request that reaches the query event's channel after the event expired must not reach the
//      callback. The recording connection keeps delivering after Drain was requested, which stands for the
//      messages that are in flight when a real server is asked to drain the subscription.
//  (b) obligation res.Service.queryEventExpire#post.released (everything the query event allocated is
//      released): after expiry the listener goroutine of the query event must have ended.
package res

import (
	"runtime"
	"strings"
	"sync"
	"testing"
	"time"

	nats "github.com/nats-io/nats.go"
)

type verifXConn struct {
	mu   sync.Mutex
	subs map[string]chan *nats.Msg
	pubs []string
}

func (c *verifXConn) Publish(subject string, payload []byte) error {
	c.mu.Lock()
	c.pubs = append(c.pubs, subject+" "+string(payload))
	c.mu.Unlock()
	return nil
}
func (c *verifXConn) PublishRequest(subject, reply string, data []byte) error { return nil }
func (c *verifXConn) ChanSubscribe(subject string, ch chan *nats.Msg) (*nats.Subscription, error) {
	c.mu.Lock()
	c.subs[subject] = ch
	c.mu.Unlock()
	return &nats.Subscription{}, nil
}
func (c *verifXConn) ChanQueueSubscribe(subject, queue string, ch chan *nats.Msg) (*nats.Subscription, error) {
	return c.ChanSubscribe(subject, ch)
}
func (c *verifXConn) Close() {}
func (c *verifXConn) find(prefix string) (string, chan *nats.Msg) {
	c.mu.Lock()
	defer c.mu.Unlock()
	for s, ch := range c.subs {
		if strings.HasPrefix(s, prefix) {
			return s, ch
		}
	}
	return "", nil
}
func (c *verifXConn) inboxes() []chan *nats.Msg {
	c.mu.Lock()
	defer c.mu.Unlock()
	var out []chan *nats.Msg
	for s, ch := range c.subs {
		if strings.HasPrefix(s, "_INBOX") {
			out = append(out, ch)
		}
	}
	return out
}

func TestVerifReplay(t *testing.T) {
	conn := &verifXConn{subs: map[string]chan *nats.Msg{}}
	s := NewService("test")
	s.SetLogger(nil)
	s.SetQueryEventDuration(20 * time.Millisecond)
	var mu sync.Mutex
	var calls []string
	s.Handle("model",
		Call("method", func(r CallRequest) {
			r.QueryEvent(func(q QueryRequest) {
				mu.Lock()
				if q == nil {
					calls = append(calls, "nil")
				} else {
					calls = append(calls, "request")
					q.NotFound()
				}
				mu.Unlock()
			})
			r.OK(nil)
		}),
	)
	go s.Serve(conn)
	defer s.Shutdown()
	var in chan *nats.Msg
	for i := 0; i < 200 && in == nil; i++ {
		time.Sleep(5 * time.Millisecond)
		_, in = conn.find("call.test")
	}
	if in == nil {
		t.Fatal("service did not subscribe")
	}
	time.Sleep(20 * time.Millisecond)
	base := runtime.NumGoroutine()
	const n = 20
	for i := 0; i < n; i++ {
		in <- &nats.Msg{Subject: "call.test.model.method", Reply: "_REPLY", Data: []byte(`{}`)}
	}
	// wait for all query events to be created and to expire
	time.Sleep(300 * time.Millisecond)
	mu.Lock()
	nils := 0
	for _, c := range calls {
		if c == "nil" {
			nils++
		}
	}
	mu.Unlock()
	if nils != n {
		t.Fatalf("expected %d expired query events, got %d", n, nils)
	}
	// (b) the listener goroutines have ended
	leaked := runtime.NumGoroutine() - base
	if leaked >= n {
		t.Errorf("VERIF-REPLAY-FAIL after %d query events expired %d more goroutines are running than before: the query listeners were never stopped", n, leaked)
	}
	// (a) a query request delivered after expiry
	for _, ch := range conn.inboxes() {
		select {
		case ch <- &nats.Msg{Subject: "_INBOX.q", Reply: "_REPLY.q", Data: []byte(`{"query":"a=b"}`)}:
		default:
		}
	}
	time.Sleep(100 * time.Millisecond)
	mu.Lock()
	seenNil := false
	late := 0
	for _, c := range calls {
		if c == "nil" {
			seenNil = true
		} else if seenNil {
			late++
		}
	}
	mu.Unlock()
	if late > 0 {
		t.Errorf("VERIF-REPLAY-FAIL the query callback was invoked %d time(s) with a request after it had been called with nil", late)
	}
	t.Logf("VERIF-REPLAY-CASES 2")
}
