// pkg: resprot
// Scenario replay for obligation resprot.SendRequest#ovf.1 (property C19): the duration announced by a
// timeout pre-response is computed as time.Duration(ms) * time.Millisecond without a range check. For
// ms > MaxInt64/1e6 the product wraps around to a negative duration, the new timer fires at once and
// SendRequest reports a timeout although the response arrives well inside the announced deadline.
package resprot

import (
	"testing"
	"time"

	nats "github.com/nats-io/nats.go"
)

type verifConn struct {
	ch chan *nats.Msg
}

func (c *verifConn) Publish(subject string, payload []byte) error { return nil }
func (c *verifConn) PublishRequest(subject, reply string, data []byte) error {
	go func() {
		// announce a very long deadline, then answer 100ms later
		c.ch <- &nats.Msg{Subject: reply, Data: []byte(`timeout:"9223372036854776"`)}
		time.Sleep(100 * time.Millisecond)
		c.ch <- &nats.Msg{Subject: reply, Data: []byte(`{"result":{"foo":"bar"}}`)}
	}()
	return nil
}
func (c *verifConn) ChanSubscribe(subject string, ch chan *nats.Msg) (*nats.Subscription, error) {
	c.ch = ch
	return &nats.Subscription{}, nil
}
func (c *verifConn) ChanQueueSubscribe(subject, queue string, ch chan *nats.Msg) (*nats.Subscription, error) {
	return c.ChanSubscribe(subject, ch)
}
func (c *verifConn) Close() {}

func TestVerifReplay(t *testing.T) {
	var announced time.Duration
	r := SendRequest(&verifConn{}, "call.test.model.method", nil, 5*time.Second, func(d time.Duration) { announced = d })
	if r.Error != nil {
		t.Errorf("VERIF-REPLAY-FAIL the service announced a deadline of 9223372036854776 ms and answered after 100ms, but SendRequest returned %v (the extension callbacks were told %v)", r.Error, announced)
	}
	t.Logf("VERIF-REPLAY-CASES 1")
}
