// pkg: test
// Scenario replay for property C09 obligations:
//  res.Mux.Contains#post.root                  (a handler on the service's own name is invisible to Contains)
//  res.Service.setDefaultOwnership#post.def*   (empty service name: default ownership is everything, ">")
//  res.Service.subscribe#ghost...valid.*       (every subscribed subject is a valid NATS subject)
//  res.Service.subscribe#...justified / irredundant (duplicated or nested ownership entries)
package test

import (
	"fmt"
	"sort"
	"strings"
	"sync"
	"testing"
	"time"

	res "github.com/jirenius/go-res"
	nats "github.com/nats-io/nats.go"
)

type verifSubConn struct {
	mu    sync.Mutex
	subs  []string
	reset chan string
}

func (c *verifSubConn) Publish(subject string, payload []byte) error {
	if subject == "system.reset" {
		c.reset <- string(payload)
	}
	return nil
}
func (c *verifSubConn) PublishRequest(subject, reply string, data []byte) error { return nil }
func (c *verifSubConn) ChanSubscribe(subject string, ch chan *nats.Msg) (*nats.Subscription, error) {
	c.mu.Lock()
	c.subs = append(c.subs, subject)
	c.mu.Unlock()
	return &nats.Subscription{}, nil
}
func (c *verifSubConn) ChanQueueSubscribe(subject, queue string, ch chan *nats.Msg) (*nats.Subscription, error) {
	return c.ChanSubscribe(subject, ch)
}
func (c *verifSubConn) Close() {}

func verifValidSubject(s string) bool {
	if s == "" {
		return false
	}
	toks := strings.Split(s, ".")
	for i, t := range toks {
		if t == "" || strings.ContainsAny(t, " \t\r\n") || (t == ">" && i != len(toks)-1) {
			return false
		}
	}
	return true
}

// natsCovers: subscription a receives every subject subscription pattern b could receive
func natsCovers(a, b string) bool { return res.Pattern(a).Matches(b) }

func verifServe(t *testing.T, s *res.Service) (subs []string, reset string) {
	c := &verifSubConn{reset: make(chan string, 4)}
	done := make(chan error, 1)
	go func() { done <- s.Serve(c) }()
	select {
	case reset = <-c.reset:
	case err := <-done:
		return nil, fmt.Sprint("serve returned: ", err)
	case <-time.After(2 * time.Second):
		t.Fatalf("VERIF-REPLAY-FAIL no system.reset within 2s")
	}
	s.Shutdown()
	<-done
	c.mu.Lock()
	defer c.mu.Unlock()
	sort.Strings(c.subs)
	return c.subs, reset
}

func TestVerifReplay(t *testing.T) {
	n := 0
	get := res.GetResource(func(r res.GetRequest) { r.NotFound() })
	// 1. root handler only: the service must own its own name
	n++
	m := res.NewMux("test")
	m.Handle("", get)
	if !m.Contains(func(h res.Handler) bool { return h.Get != nil }) {
		t.Errorf("VERIF-REPLAY-FAIL Mux.Contains does not see the handler registered on the empty pattern (the resource named like the service)")
	}
	// 2. empty service name, default ownership
	n++
	s := res.NewService("")
	s.SetLogger(nil)
	s.Handle("model", get, res.Access(res.AccessGranted))
	subs, reset := verifServe(t, s)
	for _, subj := range subs {
		if !verifValidSubject(subj) {
			t.Errorf("VERIF-REPLAY-FAIL service with empty name subscribes to invalid subject %q (all: %v, reset %s)", subj, subs, reset)
		}
	}
	// 3. explicit ownership lists: duplicated and nested entries
	for _, own := range [][]string{{"test.>", "test.>"}, {"test.>", "test"}, {"test", "test.>"}, {"test.a.>", "test.>", "test.a.b"}, } {
		n++
		s := res.NewService("test")
		s.SetLogger(nil)
		s.Handle("model", get)
		s.SetOwnedResources(own, []string{})
		subs, _ := verifServe(t, s)
		for _, typ := range []string{"get", "call", "auth"} {
			for _, p := range own {
				canon := typ + "." + p
				if typ != "get" && !strings.HasSuffix(p, ">") {
					canon += ".*"
				}
				covered := 0
				for _, sub := range subs {
					if natsCovers(sub, canon) {
						covered++
					}
				}
				if covered == 0 {
					t.Errorf("VERIF-REPLAY-FAIL ownership %v: no subscription covers %s (subscriptions %v)", own, canon, subs)
				}
			}
		}
		for i, a := range subs {
			for j, b := range subs {
				if i != j && natsCovers(a, b) {
					t.Errorf("VERIF-REPLAY-FAIL ownership %v: subscription %s is redundant with %s", own, b, a)
				}
			}
		}
	}
	t.Logf("VERIF-REPLAY-CASES %d", n)
}
