// pkg: store/badgerstore
// Scenario replay for obligation badgerstore.Store.Init#post.failed.quiet (property C12):
// an Init whose transaction does not commit has seeded nothing, so it must not have announced anything.
// A writer creates the resource between Init's read of the store and Init's commit, so the commit fails
// with a conflict; the OnChange callbacks must not have been called for the seed that was rolled back.
package badgerstore

import (
	"os"
	"testing"

	"github.com/dgraph-io/badger"
)

func TestVerifReplay(t *testing.T) {
	dir, err := os.MkdirTemp("", "verifbadger")
	if err != nil {
		t.Fatal(err)
	}
	defer os.RemoveAll(dir)
	db, err := badger.Open(badger.DefaultOptions(dir).WithLogger(nil))
	if err != nil {
		t.Fatal(err)
	}
	defer db.Close()
	st := NewStore(db).SetPrefix("item")
	seed := map[string]interface{}{"from": "init"}
	other := map[string]interface{}{"from": "writer"}
	announcedSeed := 0
	st.OnChange(func(id string, before, after interface{}) {
		if m, ok := after.(map[string]interface{}); ok && m["from"] == "init" {
			announcedSeed++
		}
	})
	err = st.Init(func(add func(id string, v interface{})) error {
		// a concurrent writer gets in before Init commits
		w := st.Write("a")
		if err := w.Create(other); err != nil {
			t.Fatal(err)
		}
		w.Close()
		add("a", seed)
		return nil
	})
	if err == nil {
		t.Skip("the transaction committed; the scenario needs a failing commit")
	}
	v, gerr := st.Get("a")
	if gerr != nil {
		t.Fatal(gerr)
	}
	if v.(map[string]interface{})["from"] != "writer" {
		t.Fatalf("unexpected stored value %v", v)
	}
	if announcedSeed != 0 {
		t.Errorf("VERIF-REPLAY-FAIL Init returned %q and stored nothing, but the OnChange callbacks were called %d time(s) for the seed that was rolled back", err, announcedSeed)
	}
	t.Logf("VERIF-REPLAY-CASES 1")
}
