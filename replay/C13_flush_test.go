// pkg: store/badgerstore
// Scenario replay for obligation badgerstore.QueryStore.Flush#post.quiescent (property C13):
// once Flush has returned, every index update submitted before the call has completed, so a query
// sees the value. The index key function is slow, which widens the window between the task queue
// dequeuing the update (its length drops to zero) and the update having run.
package badgerstore

import (
	"net/url"
	"os"
	"testing"
	"time"

	"github.com/dgraph-io/badger"
)

func TestVerifReplay(t *testing.T) {
	dir, err := os.MkdirTemp("", "verifbadger")
	if err != nil {
		t.Fatal(err)
	}
	defer os.RemoveAll(dir)
	db, err := badger.Open(badger.DefaultOptions(dir).WithLogger(nil))
	if err != nil {
		t.Fatal(err)
	}
	defer db.Close()
	st := NewStore(db).SetPrefix("item")
	idx := Index{Name: "idx", Key: func(v interface{}) []byte {
		time.Sleep(30 * time.Millisecond)
		return []byte("k")
	}}
	qs := NewQueryStore(st, func(qs *QueryStore, q url.Values) (*IndexQuery, error) {
		return &IndexQuery{Index: idx, Limit: -1}, nil
	}).AddIndex(idx)
	n := 0
	for _, id := range []string{"a", "b", "c"} {
		w := st.Write(id)
		if err := w.Create(map[string]interface{}{"id": id}); err != nil {
			t.Fatal(err)
		}
		w.Close()
		n++
		// let the queue goroutine dequeue the update
		time.Sleep(10 * time.Millisecond)
		qs.Flush()
		res, err := qs.Query(nil)
		if err != nil {
			t.Fatal(err)
		}
		if len(res.([]string)) != n {
			t.Errorf("VERIF-REPLAY-FAIL after Create(%q) and Flush the query returns %v: the index update had not completed when Flush returned", id, res)
		}
	}
	t.Logf("VERIF-REPLAY-CASES %d", n)
}
