// pkg: .
// Scenario replay for the event-method obligations (property C08): runs the real
// ChangeEvent / AddEvent / RemoveEvent / CreateEvent / DeleteEvent / Event on a resource with
// scripted apply handlers and listeners and evaluates the contract on the recorded trace:
//   normal exit  : trace == [apply?] ++ [publish] ++ [listener 0..n-1], apply handler reported success
//   panic        : trace == [apply?]  (nothing published, no listener ran)
package res

import (
	"errors"
	"fmt"
	"testing"

	nats "github.com/nats-io/nats.go"
)

type verifEvConn struct{ trace *[]string }

func (c verifEvConn) Publish(subject string, payload []byte) error {
	*c.trace = append(*c.trace, "pub:"+subject)
	return nil
}
func (c verifEvConn) PublishRequest(subject, reply string, data []byte) error { return nil }
func (c verifEvConn) ChanSubscribe(subject string, ch chan *nats.Msg) (*nats.Subscription, error) {
	return nil, nil
}
func (c verifEvConn) ChanQueueSubscribe(subject, queue string, ch chan *nats.Msg) (*nats.Subscription, error) {
	return nil, nil
}
func (c verifEvConn) Close() {}

func TestVerifReplay(t *testing.T) {
	applyErrs := []error{nil, errors.New("boom"), ErrNotFound, &Error{Code: CodeNotFound, Message: "copy"}, ErrTimeout, InternalError(errors.New("x"))}
	names := []string{"custom", "change", "delete", "add", "remove", "patch", "reaccess", "unsubscribe", "query", "", "a b", "a.b", "a*", ">", "a?", "\x7f", "ok~", "$x"}
	n := 0
	for _, kind := range []string{"change", "add", "remove", "create", "delete", "custom"} {
		for _, withApply := range []bool{false, true} {
			for _, aerr := range applyErrs {
				for nl := 0; nl <= 2; nl++ {
					for _, name := range names {
						if kind != "custom" && name != "custom" {
							continue
						}
						if !withApply && aerr != nil {
							continue
						}
						n++
						var trace []string
						s := &Service{nc: verifEvConn{&trace}}
						h := Handler{}
						if kind == "change" {
							h.Type = TypeModel
						} else if kind == "add" || kind == "remove" {
							h.Type = TypeCollection
						}
						if withApply {
							h.ApplyChange = func(r Resource, c map[string]interface{}) (map[string]interface{}, error) {
								trace = append(trace, "apply")
								return map[string]interface{}{"a": 1}, aerr
							}
							h.ApplyAdd = func(r Resource, v interface{}, idx int) error { trace = append(trace, "apply"); return aerr }
							h.ApplyRemove = func(r Resource, idx int) (interface{}, error) { trace = append(trace, "apply"); return 1, aerr }
							h.ApplyCreate = func(r Resource, v interface{}) error { trace = append(trace, "apply"); return aerr }
							h.ApplyDelete = func(r Resource) (interface{}, error) { trace = append(trace, "apply"); return 1, aerr }
						}
						r := &resource{rname: "test.model", s: s, h: h}
						for i := 0; i < nl; i++ {
							i := i
							r.listeners = append(r.listeners, func(ev *Event) { trace = append(trace, fmt.Sprintf("listen%d:%s", i, ev.Name)) })
						}
						var pv interface{}
						func() {
							defer func() { pv = recover() }()
							switch kind {
							case "change":
								r.ChangeEvent(map[string]interface{}{"a": 2})
							case "add":
								r.AddEvent(1, 0)
							case "remove":
								r.RemoveEvent(0)
							case "create":
								r.CreateEvent(1)
							case "delete":
								r.DeleteEvent()
							case "custom":
								r.Event(name, nil)
							}
						}()
						evname := kind
						if kind == "custom" {
							evname = name
						}
						var want []string
						hasApply := withApply && kind != "custom"
						if hasApply {
							want = append(want, "apply")
						}
						failed := hasApply && aerr != nil
						invalid := kind == "custom" && name != "custom" && name != "ok~" && name != "$x"
						if !failed && !invalid {
							want = append(want, "pub:event.test.model."+evname)
							for i := 0; i < nl; i++ {
								want = append(want, fmt.Sprintf("listen%d:%s", i, evname))
							}
						}
						if (pv != nil) != (failed || invalid) {
							t.Errorf("VERIF-REPLAY-FAIL %s(%q) apply=%v applyErr=%v listeners=%d: panicked=%v want %v", kind, name, withApply, aerr, nl, pv != nil, failed || invalid)
						} else if fmt.Sprint(trace) != fmt.Sprint(want) {
							t.Errorf("VERIF-REPLAY-FAIL %s(%q) apply=%v applyErr=%v listeners=%d: trace %v want %v", kind, name, withApply, aerr, nl, trace, want)
						}
					}
				}
			}
		}
	}
	t.Logf("VERIF-REPLAY-CASES %d", n)
}
