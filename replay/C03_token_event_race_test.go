// pkg: .
// Scenario replay for the obligations  res.Service.TokenEvent#call.Service.event#1.pre.1  (and the
// same obligation of TokenEventWithID / TokenReset), property C03: a call from a goroutine that is
// not a worker callback passes the started-check, Shutdown then completes (it sets s.nc = nil), and
// the publish dereferences the nil connection. The window is opened deterministically here by a
// token whose MarshalJSON performs the Shutdown (the check has passed, the publish has not happened).
package res

import (
	"fmt"
	"sync"
	"sync/atomic"
	"testing"

	nats "github.com/nats-io/nats.go"
)

type verifNopConn struct{}

func (verifNopConn) Publish(subject string, payload []byte) error                { return nil }
func (verifNopConn) PublishRequest(subject, reply string, data []byte) error     { return nil }
func (verifNopConn) ChanSubscribe(s string, ch chan *nats.Msg) (*nats.Subscription, error) { return nil, nil }
func (verifNopConn) ChanQueueSubscribe(s, q string, ch chan *nats.Msg) (*nats.Subscription, error) {
	return nil, nil
}
func (verifNopConn) Close() {}

type verifShutdownToken struct{ s *Service }

func (v verifShutdownToken) MarshalJSON() ([]byte, error) {
	v.s.Shutdown()
	return []byte(`{}`), nil
}

func verifStarted() *Service {
	s := NewService("test")
	s.SetLogger(nil)
	s.nc = verifNopConn{}
	s.inCh = make(chan *nats.Msg, 1)
	s.workcond = sync.Cond{L: &s.mu}
	s.workbuf = make([]*work, 4)
	s.workqueue = s.workbuf[:0]
	s.rwork = make(map[string]*work)
	atomic.StoreInt32(&s.state, stateStarted)
	return s
}

func TestVerifReplay(t *testing.T) {
	calls := map[string]func(s *Service){
		"TokenEvent":       func(s *Service) { s.TokenEvent("cid", verifShutdownToken{s}) },
		"TokenEventWithID": func(s *Service) { s.TokenEventWithID("cid", "tid", verifShutdownToken{s}) },
	}
	n := 0
	for name, call := range calls {
		n++
		s := verifStarted()
		var pv interface{}
		func() {
			defer func() { pv = recover() }()
			call(s)
		}()
		if pv != nil {
			t.Errorf("VERIF-REPLAY-FAIL %s racing Shutdown panicked: %v", name, fmt.Sprint(pv))
		}
	}
	t.Logf("VERIF-REPLAY-CASES %d", n)
}
