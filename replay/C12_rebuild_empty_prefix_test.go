// pkg: store/badgerstore
// Scenario replay for obligation badgerstore.QueryStore.RebuildIndexes$1 (property C12: after RebuildIndexes every
// index query agrees with the stored values again, for every store configuration, prefix set or empty).
// With an empty store prefix the values share the key space with the init marker and with the index entries;
// the rescan must not try to decode those.
package badgerstore

import (
	"net/url"
	"os"
	"reflect"
	"testing"

	"github.com/dgraph-io/badger"
)

func TestVerifReplay(t *testing.T) {
	n := 0
	for _, prefix := range []string{"", "item"} {
		for _, withInit := range []bool{false, true} {
			n++
			dir, _ := os.MkdirTemp("", "verifbadger")
			defer os.RemoveAll(dir)
			db, err := badger.Open(badger.DefaultOptions(dir).WithLogger(nil))
			if err != nil {
				t.Fatal(err)
			}
			st := NewStore(db).SetPrefix(prefix)
			idx := Index{Name: "idx", Key: func(v interface{}) []byte {
				return []byte(v.(map[string]interface{})["k"].(string))
			}}
			qs := NewQueryStore(st, func(qs *QueryStore, q url.Values) (*IndexQuery, error) {
				return &IndexQuery{Index: idx, Limit: -1}, nil
			}).AddIndex(idx)
			if withInit {
				if err := st.Init(func(add func(id string, v interface{})) error {
					add("a", map[string]interface{}{"k": "x"})
					return nil
				}); err != nil {
					t.Fatal(err)
				}
			} else {
				w := st.Write("a")
				if err := w.Create(map[string]interface{}{"k": "x"}); err != nil {
					t.Fatal(err)
				}
				w.Close()
			}
			w := st.Write("b")
			if err := w.Create(map[string]interface{}{"k": "y"}); err != nil {
				t.Fatal(err)
			}
			w.Close()
			qs.Flush()
			err = qs.RebuildIndexes()
			if err != nil {
				t.Errorf("VERIF-REPLAY-FAIL prefix=%q init=%v: RebuildIndexes failed: %v", prefix, withInit, err)
			}
			res, qerr := qs.Query(nil)
			if qerr != nil || !reflect.DeepEqual(res, []string{"a", "b"}) {
				t.Errorf("VERIF-REPLAY-FAIL prefix=%q init=%v: after RebuildIndexes the index query returns %v (%v), the stored values are a and b", prefix, withInit, res, qerr)
			}
			db.Close()
		}
	}
	t.Logf("VERIF-REPLAY-CASES %d", n)
}
