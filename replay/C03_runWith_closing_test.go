// pkg: .
// Monitor-step replay for obligation res.Service.runWith#unlock*.inv.I7 (property C03):
// pre-state: the monitor invariant holds and the service is closing (close() has set the work
// queue to nil under the lock; the caller passed the started-check just before);
// step: the real runWith critical section; post-state: invariant I7 (closing => workqueue == nil).
// With I7 broken a worker that is busy never observes the nil queue again and Shutdown hangs.
package res

import (
	"sync"
	"sync/atomic"
	"testing"
)

func TestVerifReplay(t *testing.T) {
	n := 0
	for _, wid := range []string{"group", ""} {
		n++
		s := NewService("test")
		s.workcond = sync.Cond{L: &s.mu}
		s.workbuf = make([]*work, 4)
		s.rwork = make(map[string]*work)
		atomic.StoreInt32(&s.state, stateStarted) // the caller's check sees "started" ...
		s.mu.Lock()
		s.workqueue = nil // ... then close() runs its critical section
		s.mu.Unlock()
		s.runWith(wid, func() {})
		s.mu.Lock()
		q := s.workqueue
		s.mu.Unlock()
		if q != nil {
			t.Errorf("VERIF-REPLAY-FAIL runWith(%q) after close(): workqueue re-created with %d item(s) while closing (I7 violated)", wid, len(q))
		}
	}
	t.Logf("VERIF-REPLAY-CASES %d", n)
}
