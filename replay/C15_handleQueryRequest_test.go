// pkg: .
// Scenario replay for the obligations of (*queryEvent).handleQueryRequest, (*queryRequest).executeCallback
// and its deferred closure (property C15). It evaluates the contract at run time on the real code:
//   ensures  exactly one response is published on the query request's reply subject
//   ensures  an error response carries an error object, never {"error":null}
//   ensures  the function does not panic
// over a script of callback behaviours (reply once, twice, never, events only, panic with any kind of
// value before or after replying) and payloads (valid, missing query, malformed).
package res

import (
	"errors"
	"fmt"
	"strings"
	"testing"

	nats "github.com/nats-io/nats.go"
)

type verifQConn struct {
	pubs     map[string]int
	payloads []string
}

func (c *verifQConn) Publish(subject string, payload []byte) error {
	if len(payload) > 8 && string(payload[:8]) == `timeout:` {
		return nil // pre-response
	}
	c.pubs[subject]++
	c.payloads = append(c.payloads, string(payload))
	return nil
}
func (c *verifQConn) PublishRequest(subject, reply string, data []byte) error { return nil }
func (c *verifQConn) ChanSubscribe(subject string, ch chan *nats.Msg) (*nats.Subscription, error) {
	return nil, nil
}
func (c *verifQConn) ChanQueueSubscribe(subject, queue string, ch chan *nats.Msg) (*nats.Subscription, error) {
	return nil, nil
}
func (c *verifQConn) Close() {}

func TestVerifReplay(t *testing.T) {
	type beh struct {
		name string
		f    func(r QueryRequest)
	}
	behs := []beh{
		{"model", func(r QueryRequest) { r.Model(map[string]interface{}{"a": 1}) }},
		{"nothing", func(r QueryRequest) {}},
		{"events-only", func(r QueryRequest) { r.ChangeEvent(map[string]interface{}{"a": 2}) }},
		{"notfound-twice", func(r QueryRequest) { r.NotFound(); r.NotFound() }},
		{"invalid-query", func(r QueryRequest) { r.InvalidQuery("") }},
		{"error", func(r QueryRequest) { r.Error(errors.New("x")) }},
		{"panic-string", func(r QueryRequest) { panic("boom") }},
		{"panic-error", func(r QueryRequest) { panic(errors.New("boom")) }},
		{"panic-int", func(r QueryRequest) { panic(42) }},
		{"panic-resError", func(r QueryRequest) { panic(ErrNotFound) }},
		{"panic-typed-nil-resError", func(r QueryRequest) { panic((*Error)(nil)) }},
		{"reply-then-panic-string", func(r QueryRequest) { r.NotFound(); panic("boom") }},
		{"reply-then-panic-resError", func(r QueryRequest) { r.NotFound(); panic(ErrNotFound) }},
		{"reply-then-panic-typed-nil-resError", func(r QueryRequest) { r.NotFound(); panic((*Error)(nil)) }},
		{"reply-then-panic-wrapped", func(r QueryRequest) { r.NotFound(); panic(fmt.Errorf("w: %w", ErrNotFound)) }},
		{"collection-on-model", func(r QueryRequest) { r.Collection([]int{1}) }},
	}
	payloads := []string{`{"query":"a=b"}`, `{}`, ``, `{"query":`}
	n := 0
	for _, b := range behs {
		for _, p := range payloads {
			n++
			func() {
				conn := &verifQConn{pubs: map[string]int{}}
				s := NewService("test")
				s.SetLogger(nil)
				s.nc = conn
				qe := &queryEvent{r: resource{s: s, rname: "test.model", h: Handler{Type: TypeModel}}, cb: b.f}
				m := &nats.Msg{Subject: "_INBOX.q", Reply: "_INBOX.reply", Data: []byte(p)}
				defer func() {
					if v := recover(); v != nil {
						t.Errorf("VERIF-REPLAY-FAIL callback=%s payload=%q: handleQueryRequest panicked: %v", b.name, p, v)
					}
				}()
				qe.handleQueryRequest(m)
				if conn.pubs["_INBOX.reply"] != 1 || len(conn.pubs) != 1 {
					t.Errorf("VERIF-REPLAY-FAIL callback=%s payload=%q: %d responses on the reply subject (all publishes: %v), want exactly 1", b.name, p, conn.pubs["_INBOX.reply"], conn.pubs)
				}
				for _, pl := range conn.payloads {
					if strings.Contains(pl, `"error":null`) {
						t.Errorf("VERIF-REPLAY-FAIL callback=%s payload=%q: error response without an error object: %s", b.name, p, pl)
					}
				}
			}()
		}
	}
	t.Logf("VERIF-REPLAY-CASES %d", n)
}
