// pkg: .
// Scenario replay for the obligations of (*Request).executeHandler and its deferred closure
// (property C04). It evaluates the function's contract at run time on the real code:
//   requires  reqOK(r) && !r.replied && rcount[r] == 0 && rtype in {access,get,call,auth}
//   ensures   answerable ==> exactly one response was published on the reply subject
//   ensures   the function does not panic
// over a script of handler behaviours (the cases of the callback contract: reply once, reply
// twice, return without reply, panic with any kind of value - including nil - before or after replying).
package res

import (
	"errors"
	"fmt"
	"testing"

	nats "github.com/nats-io/nats.go"
)

type verifConn struct{ pubs map[string]int }

func (c *verifConn) Publish(subject string, payload []byte) error {
	if len(payload) > 8 && string(payload[:8]) == `timeout:` {
		return nil // pre-response
	}
	c.pubs[subject]++
	return nil
}
func (c *verifConn) PublishRequest(subject, reply string, data []byte) error { return nil }
func (c *verifConn) ChanSubscribe(subject string, ch chan *nats.Msg) (*nats.Subscription, error) {
	return nil, nil
}
func (c *verifConn) ChanQueueSubscribe(subject, queue string, ch chan *nats.Msg) (*nats.Subscription, error) {
	return nil, nil
}
func (c *verifConn) Close() {}

func TestVerifReplay(t *testing.T) {
	type beh struct {
		name string
		f    func(r *Request)
	}
	behs := []beh{
		{"reply-once", func(r *Request) { r.reply(responseSuccess) }},
		{"no-reply", func(r *Request) {}},
		{"reply-twice", func(r *Request) { r.reply(responseSuccess); r.reply(responseSuccess) }},
		{"panic-string", func(r *Request) { panic("boom") }},
		{"panic-error", func(r *Request) { panic(errors.New("boom")) }},
		{"panic-int", func(r *Request) { panic(42) }},
		{"panic-nil", func(r *Request) { panic(nil) }}, // recover() returns nil for it when the main module declares go < 1.21 (go-res: go 1.18)
		{"reply-then-panic-nil", func(r *Request) { r.reply(responseSuccess); panic(nil) }},
		{"panic-resError", func(r *Request) { panic(ErrNotFound) }},
		{"panic-typed-nil-resError", func(r *Request) { panic((*Error)(nil)) }},
		{"reply-then-panic-string", func(r *Request) { r.reply(responseSuccess); panic("boom") }},
		{"reply-then-panic-resError", func(r *Request) { r.reply(responseSuccess); panic(ErrNotFound) }},
		{"reply-then-panic-typed-nil-resError", func(r *Request) { r.reply(responseSuccess); panic((*Error)(nil)) }},
		{"reply-then-panic-wrapped", func(r *Request) { r.reply(responseSuccess); panic(fmt.Errorf("w: %w", ErrNotFound)) }},
		{"error-typed-nil", func(r *Request) { r.Error((*Error)(nil)) }},
	}
	type shape struct {
		rtype, method string
		h             func(b beh) Handler
		answerable    bool
	}
	shapes := []shape{
		{"access", "", func(b beh) Handler { return Handler{Access: func(r AccessRequest) { b.f(r.(*Request)) }} }, true},
		{"access", "", func(b beh) Handler { return Handler{} }, false},
		{"get", "", func(b beh) Handler { return Handler{Get: func(r GetRequest) { b.f(r.(*Request)) }} }, true},
		{"get", "", func(b beh) Handler { return Handler{} }, true},
		{"call", "m", func(b beh) Handler {
			return Handler{Call: map[string]CallHandler{"m": func(r CallRequest) { b.f(r.(*Request)) }}}
		}, true},
		{"call", "other", func(b beh) Handler {
			return Handler{Call: map[string]CallHandler{"*": func(r CallRequest) { b.f(r.(*Request)) }}}
		}, true},
		{"call", "none", func(b beh) Handler { return Handler{} }, true},
		{"call", "new", func(b beh) Handler { return Handler{New: func(r NewRequest) { b.f(r.(*Request)) }} }, true},
		{"call", "new", func(b beh) Handler {
			return Handler{Call: map[string]CallHandler{"new": func(r CallRequest) { b.f(r.(*Request)) }}}
		}, true},
		{"auth", "m", func(b beh) Handler {
			return Handler{Auth: map[string]AuthHandler{"m": func(r AuthRequest) { b.f(r.(*Request)) }}}
		}, true},
		{"auth", "x", func(b beh) Handler {
			return Handler{Auth: map[string]AuthHandler{"*": func(r AuthRequest) { b.f(r.(*Request)) }}}
		}, true},
		{"auth", "x", func(b beh) Handler { return Handler{} }, true},
	}
	n := 0
	for _, sh := range shapes {
		for _, b := range behs {
			n++
			conn := &verifConn{pubs: map[string]int{}}
			s := &Service{nc: conn}
			r := &Request{resource: resource{rname: "test.model", s: s, h: sh.h(b)}, rtype: sh.rtype, method: sh.method,
				msg: &nats.Msg{Subject: sh.rtype + ".test.model", Reply: "_INBOX.1"}}
			var escaped interface{}
			func() {
				defer func() { escaped = recover() }()
				r.executeHandler()
			}()
			got := conn.pubs["_INBOX.1"]
			want := 0
			if sh.answerable {
				want = 1
			}
			if escaped != nil {
				t.Errorf("VERIF-REPLAY-FAIL executeHandler panicked (%v) for rtype=%s method=%q handler-behaviour=%s", escaped, sh.rtype, sh.method, b.name)
			} else if got != want {
				t.Errorf("VERIF-REPLAY-FAIL responses=%d want %d for rtype=%s method=%q handler-behaviour=%s", got, want, sh.rtype, sh.method, b.name)
			}
		}
	}
	t.Logf("VERIF-REPLAY-CASES %d", n)
}
