// pkg: .
// Scenario replay for obligation res.Mux.add (group tag indices are relative to the last mount point on the
// handler's path, like path parameters) and the no-panic obligations of Mux.GetHandler / group.toString
// (property C06): a handler registered on a parent Mux with a pattern that runs through a mounted sub-Mux
// must get its ${tag} group resolved from the right token, and lookup must not panic.
package res

import "testing"

func TestVerifReplay(t *testing.T) {
	n := 0
	check := func(name string, build func() *Mux, rname, wantGroup, param, wantParam string) {
		n++
		defer func() {
			if v := recover(); v != nil {
				t.Errorf("VERIF-REPLAY-FAIL %s: GetHandler(%q) panicked: %v", name, rname, v)
			}
		}()
		m := build()
		mh := m.GetHandler(rname)
		if mh == nil {
			t.Errorf("VERIF-REPLAY-FAIL %s: GetHandler(%q) found nothing", name, rname)
			return
		}
		if mh.Group != wantGroup {
			t.Errorf("VERIF-REPLAY-FAIL %s: GetHandler(%q) reports group %q, the template with its tags substituted is %q", name, rname, mh.Group, wantGroup)
		}
		if mh.Params[param] != wantParam {
			t.Errorf("VERIF-REPLAY-FAIL %s: GetHandler(%q) reports %s=%q, want %q", name, rname, param, mh.Params[param], wantParam)
		}
	}
	h := Handler{Group: "g.${id}"}
	check("parent pattern through mount", func() *Mux {
		m := NewMux("test")
		sub := NewMux("")
		m.Mount("a", sub)
		m.AddHandler("a.$id", h)
		return m
	}, "test.a.5", "g.5", "id", "5")
	check("parent pattern through mount, two params", func() *Mux {
		m := NewMux("test")
		sub := NewMux("")
		m.Mount("a", sub)
		m.AddHandler("a.$id.$x", h)
		return m
	}, "test.a.5.7", "g.5", "x", "7")
	check("registered on the sub mux", func() *Mux {
		m := NewMux("test")
		sub := NewMux("")
		sub.AddHandler("$id", h)
		m.Mount("a", sub)
		return m
	}, "test.a.5", "g.5", "id", "5")
	check("nested mounts, registered on the middle mux", func() *Mux {
		m := NewMux("test")
		sub := NewMux("b")
		subsub := NewMux("")
		sub.Mount("c", subsub)
		sub.AddHandler("c.$id", h)
		m.Mount("a", sub)
		return m
	}, "test.a.b.c.9", "g.9", "id", "9")
	check("no mount", func() *Mux {
		m := NewMux("test")
		m.AddHandler("a.$id", h)
		return m
	}, "test.a.5", "g.5", "id", "5")
	t.Logf("VERIF-REPLAY-CASES %d", n)
}
