// pkg: .
// Scenario replay for obligation res.Mux.fetch (property C06: every pattern the documentation calls valid can
// be registered, every invalid one is rejected at registration): the anonymous placeholder "*" is documented
// (Handle("user.*", ...)) and accepted by Pattern.IsValid; "*x", "$" and "**" are not patterns.
package res

import "testing"

func TestVerifReplay(t *testing.T) {
	n := 0
	for _, p := range []string{"user.*", "*", "a.*.b", "item.$id.*.x", "a.*.>"} {
		n++
		func() {
			defer func() {
				if v := recover(); v != nil {
					t.Errorf("VERIF-REPLAY-FAIL registering the valid pattern %q (Pattern.IsValid: %v) panics: %v", p, Pattern(p).IsValid(), v)
				}
			}()
			m := NewMux("test")
			m.Handle(p, GetModel(func(r ModelRequest) { r.NotFound() }))
		}()
	}
	m := NewMux("test")
	m.Handle("user.*", GetModel(func(r ModelRequest) { r.NotFound() }))
	if m.GetHandler("test.user.10") == nil {
		t.Errorf("VERIF-REPLAY-FAIL user.* does not match test.user.10")
	}
	for _, bad := range []string{"a.*b", "a.$", "a.**", "a..b"} {
		n++
		func() {
			defer func() {
				if recover() == nil {
					t.Errorf("VERIF-REPLAY-FAIL the invalid pattern %q was accepted by AddListener", bad)
				}
			}()
			NewMux("test").AddListener(bad, func(*Event) {})
		}()
	}
	t.Logf("VERIF-REPLAY-CASES %d", n)
}
