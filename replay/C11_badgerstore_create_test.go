// pkg: store/badgerstore
// Scenario replay for obligations badgerstore.writeTxn.Create#post.dup and #post.emptyid (property C11),
// on the real store over a real BadgerDB in a temporary directory:
//   Create on an existing id fails with the duplicate error (errors.Is(err, store.ErrDuplicate));
//   Create on an empty id fails (this store does not generate ids), with or without a prefix.
package badgerstore

import (
	"errors"
	"os"
	"testing"

	"github.com/dgraph-io/badger"
	"github.com/jirenius/go-res/store"
)

func TestVerifReplay(t *testing.T) {
	n := 0
	for _, prefix := range []string{"", "item"} {
		dir, err := os.MkdirTemp("", "verifbadger")
		if err != nil {
			t.Fatal(err)
		}
		defer os.RemoveAll(dir)
		db, err := badger.Open(badger.DefaultOptions(dir).WithLogger(nil))
		if err != nil {
			t.Fatal(err)
		}
		st := NewStore(db).SetPrefix(prefix)
		v := map[string]interface{}{"a": "b"}
		n++
		w := st.Write("one")
		if err := w.Create(v); err != nil {
			t.Errorf("VERIF-REPLAY-FAIL first Create failed: %v", err)
		}
		err = w.Create(v)
		if err == nil || !errors.Is(err, store.ErrDuplicate) {
			t.Errorf("VERIF-REPLAY-FAIL prefix=%q: Create on an existing id returned %v, which is not the duplicate error", prefix, err)
		}
		w.Close()
		n++
		w = st.Write("")
		if err := w.Create(v); err == nil {
			t.Errorf("VERIF-REPLAY-FAIL prefix=%q: Create with an empty id succeeded", prefix)
		}
		w.Close()
		db.Close()
	}
	t.Logf("VERIF-REPLAY-CASES %d", n)
}
