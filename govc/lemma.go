package main

// Lemmas: ghost procedures proved once, usable as facts (DESIGN.md 3.1, 4.4).
// A lemma instance L(args) used as a Bool expression means  pre(args) => post(args).

import (
	"fmt"
	"go/ast"
	"sort"
	"strings"
)

func lemmaParamVals(l *Lemma, names func(p Param, comp string, sort string) string) map[string]Val {
	vars := map[string]Val{}
	for _, p := range l.Params {
		t := specType(p.Type)
		v := Val{T: t}
		cn := compNames(t)
		for j, s := range flatten(t) {
			c := p.Name
			if len(flatten(t)) > 1 {
				c = p.Name + "." + cn[j]
			}
			v.C = append(v.C, names(p, c, s))
		}
		vars[p.Name] = v
	}
	return vars
}

// lemmaInstance renders pre(args) => post(args) for a call expression.
func (c *Ctx) lemmaInstance(l *Lemma, x *ast.CallExpr) string {
	if len(x.Args) != len(l.Params) {
		c.fail(x, "lemma %s takes %d args", l.Name, len(l.Params))
	}
	vars := map[string]Val{}
	for i, p := range l.Params {
		v := c.tr(x.Args[i])
		want := specType(p.Type)
		if isByteSlice(v.T) && isString(want) {
			v = c.E.bytesOf(c.St, v)
		}
		if len(v.C) != len(flatten(want)) {
			c.fail(x, "lemma %s argument %d: got %s", l.Name, i, v.T)
		}
		vars[p.Name] = Val{want, v.C}
	}
	lc := &Ctx{E: c.E, Vars: vars, where: "lemma instance " + l.Name}
	var pre, post []string
	for _, r := range l.Requires {
		pre = append(pre, lc.boolT(r.Expr))
	}
	for _, e := range l.Ensures {
		post = append(post, lc.boolT(e.Expr))
	}
	if c.E != nil {
		c.E.usedLemmas[l.Name] = true
	}
	return imp(and(pre...), and(post...))
}

// proveLemmas generates the obligations of the listed lemmas (closed under `use`).
func proveLemmas(w *World, names []string) []*Obligation {
	var out []*Obligation
	seen := map[string]bool{}
	var queue []string
	queue = append(queue, names...)
	for len(queue) > 0 {
		n := queue[0]
		queue = queue[1:]
		if seen[n] {
			continue
		}
		seen[n] = true
		l := w.Specs.Lemmas[n]
		if l == nil {
			engineError("lemma %s not found", n)
		}
		if l.Trusted {
			continue
		}
		e := &Enc{W: w, key: "lemma." + n, used: map[string]bool{}, sorts: map[string]string{}, usedLemmas: map[string]bool{}, usedTrusted: map[string]bool{}}
		var decls []string
		vars := lemmaParamVals(l, func(p Param, comp, sort string) string {
			decls = append(decls, fmt.Sprintf("(declare-const %s %s)", comp, sort))
			return comp
		})
		c := &Ctx{E: e, Vars: vars, where: "lemma " + n}
		var facts []string
		for _, p := range l.Params {
			facts = append(facts, e.typeFactsSpec(vars[p.Name]))
		}
		for _, r := range l.Requires {
			facts = append(facts, c.boolT(r.Expr))
		}
		var hints []string
		var decOb []string
		for _, u := range l.Uses {
			// use L2(args)  |  use imp(cond, L2(args))
			cond := "true"
			call, ok := u.Expr.(*ast.CallExpr)
			if ok {
				if id, ok2 := call.Fun.(*ast.Ident); ok2 && id.Name == "imp" {
					cond = c.boolT(call.Args[0])
					call, ok = call.Args[1].(*ast.CallExpr)
				}
			}
			if !ok {
				engineError("lemma %s: bad use clause %s", n, u.Src)
			}
			id := call.Fun.(*ast.Ident)
			l2 := w.Specs.Lemmas[id.Name]
			if l2 == nil {
				engineError("lemma %s uses unknown lemma %s", n, id.Name)
			}
			hints = append(hints, imp(cond, c.lemmaInstance(l2, call)))
			if id.Name == n {
				if l.Dec == nil {
					engineError("recursive lemma %s needs decreases", n)
				}
				argVars := map[string]Val{}
				for i, p := range l.Params {
					argVars[p.Name] = Val{specType(p.Type), c.tr(call.Args[i]).C}
				}
				ac := &Ctx{E: e, Vars: argVars, where: "lemma " + n + " decreases"}
				m0 := c.intT(l.Dec.Expr)
				m1 := ac.intT(l.Dec.Expr)
				decOb = append(decOb, imp(cond, and(app("<=", "0", m0), app("<", m1, m0))))
			} else {
				queue = append(queue, id.Name)
			}
		}
		specs := ""
		build := func(goal string) string {
			specs = w.specFuncSMT(e.used)
			var b strings.Builder
			b.WriteString("(set-option :produce-models true)\n(set-logic ALL)\n" + preamble + specs)
			b.WriteString("(declare-const strk (Array Int Int))\n(declare-const maxlen Int)\n(assert (= maxlen 2305843009213693952))\n(declare-const maxcap Int)\n(assert (= maxcap 9223372036854775807))\n")
			b.WriteString(strings.Join(decls, "\n") + "\n")
			for _, f := range facts {
				if f != "true" {
					b.WriteString("(assert " + f + ")\n")
				}
			}
			for _, h := range hints {
				b.WriteString("(assert " + h + ")\n")
			}
			b.WriteString("(assert (not " + goal + "))\n(check-sat)\n")
			return b.String()
		}
		for i, en := range l.Ensures {
			goal := c.boolT(en.Expr)
			q := build(goal)
			out = append(out, &Obligation{Name: "lemma." + n + "#post." + clauseName(en, i), Class: "lemma", Src: en.Src, Where: fmt.Sprintf("%s:%d", l.File, l.Line), SMT: q, HasRec: strings.Contains(specs, "define-fun-rec"), Func: "lemma." + n, Lemma: true})
		}
		for i, d := range decOb {
			// the decreases obligation must not use the hints
			saved := hints
			hints = nil
			q := build(d)
			hints = saved
			out = append(out, &Obligation{Name: fmt.Sprintf("lemma.%s#decreases.%d", n, i+1), Class: "dec", Src: l.Dec.Src, Where: fmt.Sprintf("%s:%d", l.File, l.Line), SMT: q, HasRec: strings.Contains(specs, "define-fun-rec"), Func: "lemma." + n, Lemma: true})
		}
	}
	sort.SliceStable(out, func(i, j int) bool { return out[i].Name < out[j].Name })
	return out
}

func (e *Enc) typeFactsSpec(v Val) string {
	if isString(v.T) {
		return and(app("<=", "0", v.C[1]), app("<=", "0", v.C[2]), app("<=", v.C[2], "maxlen"))
	}
	return "true"
}

// lemmaAxioms renders every triggered lemma whose trigger function is used by e
// as a quantified axiom. The lemma itself is proved separately (proveLemmas).
func (e *Enc) lemmaAxioms() string {
	var names []string
	for n, l := range e.W.Specs.Lemmas {
		if l.Trigger == nil {
			continue
		}
		call, ok := l.Trigger.Expr.(*ast.CallExpr)
		if !ok {
			continue
		}
		if id, ok := call.Fun.(*ast.Ident); ok && e.used[id.Name] {
			names = append(names, n)
		}
	}
	sort.Strings(names)
	var b strings.Builder
	for _, n := range names {
		l := e.W.Specs.Lemmas[n]
		var binders []string
		vars := lemmaParamVals(l, func(p Param, comp, sort string) string {
			v := "L_" + n + "_" + comp
			binders = append(binders, "("+v+" "+sort+")")
			return v
		})
		c := &Ctx{E: e, Vars: vars, where: "lemma axiom " + n}
		var pre, post []string
		for _, p := range l.Params {
			pre = append(pre, e.typeFactsSpec(vars[p.Name]))
		}
		for _, r := range l.Requires {
			pre = append(pre, c.boolT(r.Expr))
		}
		for _, en := range l.Ensures {
			post = append(post, c.boolT(en.Expr))
		}
		trig := c.tr(l.Trigger.Expr).C[0]
		fmt.Fprintf(&b, "(assert (forall (%s) (! %s :pattern (%s))))\n", strings.Join(binders, " "), imp(and(pre...), and(post...)), trig)
		e.usedLemmas[n] = true
	}
	return b.String()
}
