package main

// Data model: every Go type flattens to a list of primitive SMT components.
// See DESIGN.md section 3.2.

import (
	"fmt"
	"go/types"
	"strings"
)

const (
	SInt  = "Int"
	SBool = "Bool"
	SArr  = "(Array Int Int)"
)

// Val is a symbolic Go value: its Go type and one SMT term per component.
type Val struct {
	T types.Type
	C []string
}

var (
	tInt    = types.Typ[types.Int]
	tBool   = types.Typ[types.Bool]
	tString = types.Typ[types.String]
	tByte   = types.Typ[types.Uint8]
)

func ival(t string) Val       { return Val{tInt, []string{t}} }
func bval(t string) Val       { return Val{tBool, []string{t}} }
func sval(a, o, n string) Val { return Val{tString, []string{a, o, n}} }

type unsupported struct{ msg string }

func (u unsupported) Error() string { return u.msg }

func unsupp(format string, a ...interface{}) {
	panic(unsupported{fmt.Sprintf(format, a...)})
}

// flatten returns the component sorts of a Go type.
func flatten(t types.Type) []string {
	switch u := t.Underlying().(type) {
	case *types.Basic:
		switch {
		case u.Info()&types.IsBoolean != 0:
			return []string{SBool}
		case u.Info()&types.IsInteger != 0:
			return []string{SInt}
		case u.Info()&types.IsString != 0:
			return []string{SArr, SInt, SInt}
		case u.Kind() == types.UntypedNil, u.Kind() == types.UnsafePointer:
			return []string{SInt}
		case u.Info()&types.IsFloat != 0:
			return []string{SInt} // opaque: floats are never interpreted
		case u.Kind() == types.Invalid:
			return []string{SInt} // unused component of a range tuple
		}
	case *types.Pointer, *types.Map, *types.Chan, *types.Signature:
		return []string{SInt}
	case *types.Slice:
		return []string{SInt, SInt, SInt, SInt}
	case *types.Interface:
		return []string{SInt, SInt}
	case *types.Struct:
		var out []string
		for i := 0; i < u.NumFields(); i++ {
			out = append(out, flatten(u.Field(i).Type())...)
		}
		return out
	case *types.Tuple:
		var out []string
		for i := 0; i < u.Len(); i++ {
			out = append(out, flatten(u.At(i).Type())...)
		}
		return out
	case *types.Array:
		var out []string
		for _, s := range flatten(u.Elem()) {
			out = append(out, "(Array Int "+s+")")
		}
		return out
	}
	unsupp("type %s not in subset", t)
	return nil
}

// compNames gives a readable suffix for each component of a type.
func compNames(t types.Type) []string {
	switch u := t.Underlying().(type) {
	case *types.Basic:
		if u.Info()&types.IsString != 0 {
			return []string{"a", "o", "n"}
		}
		return []string{"v"}
	case *types.Slice:
		return []string{"r", "o", "n", "c"}
	case *types.Interface:
		return []string{"tag", "pl"}
	case *types.Struct:
		var out []string
		for i := 0; i < u.NumFields(); i++ {
			for _, s := range compNames(u.Field(i).Type()) {
				out = append(out, u.Field(i).Name()+"_"+s)
			}
		}
		return out
	case *types.Tuple:
		var out []string
		for i := 0; i < u.Len(); i++ {
			for _, s := range compNames(u.At(i).Type()) {
				out = append(out, fmt.Sprintf("%d_%s", i, s))
			}
		}
		return out
	case *types.Array:
		var out []string
		for _, s := range compNames(u.Elem()) {
			out = append(out, "arr_"+s)
		}
		return out
	}
	return []string{"v"}
}

func zeroOfSort(s string) string {
	switch s {
	case SInt:
		return "0"
	case SBool:
		return "false"
	case SArr:
		return "((as const (Array Int Int)) 0)"
	}
	if strings.HasPrefix(s, "(Array Int ") {
		inner := strings.TrimSuffix(strings.TrimPrefix(s, "(Array Int "), ")")
		return "((as const " + s + ") " + zeroOfSort(inner) + ")"
	}
	panic("zeroOfSort " + s)
}

func zeroVal(t types.Type) Val {
	ss := flatten(t)
	v := Val{T: t}
	for _, s := range ss {
		v.C = append(v.C, zeroOfSort(s))
	}
	return v
}

// fieldRange returns the component range [lo,hi) of field i in struct st.
func fieldRange(st *types.Struct, i int) (int, int) {
	lo := 0
	for k := 0; k < i; k++ {
		lo += len(flatten(st.Field(k).Type()))
	}
	return lo, lo + len(flatten(st.Field(i).Type()))
}

func isString(t types.Type) bool {
	b, ok := t.Underlying().(*types.Basic)
	return ok && b.Info()&types.IsString != 0
}
func isInteger(t types.Type) bool {
	b, ok := t.Underlying().(*types.Basic)
	return ok && b.Info()&types.IsInteger != 0
}
func isBool(t types.Type) bool {
	b, ok := t.Underlying().(*types.Basic)
	return ok && b.Info()&types.IsBoolean != 0
}
func isByteSlice(t types.Type) bool {
	s, ok := t.Underlying().(*types.Slice)
	if !ok {
		return false
	}
	b, ok := s.Elem().Underlying().(*types.Basic)
	return ok && (b.Kind() == types.Uint8)
}

// intRange returns the value range of an integer type as SMT literals.
func intRange(t types.Type) (lo, hi string, ok bool) {
	b, isb := t.Underlying().(*types.Basic)
	if !isb {
		return "", "", false
	}
	switch b.Kind() {
	case types.Int, types.Int64:
		return "(- 9223372036854775808)", "9223372036854775807", true
	case types.Int32: // also rune
		return "(- 2147483648)", "2147483647", true
	case types.Int16:
		return "(- 32768)", "32767", true
	case types.Int8:
		return "(- 128)", "127", true
	case types.Uint8:
		return "0", "255", true
	case types.Uint16:
		return "0", "65535", true
	case types.Uint32:
		return "0", "4294967295", true
	case types.Uint, types.Uint64, types.Uintptr:
		return "0", "18446744073709551615", true
	}
	return "", "", false
}

// ---- SMT term helpers ----

func and(ts ...string) string {
	var out []string
	for _, t := range ts {
		if t == "true" || t == "" {
			continue
		}
		if t == "false" {
			return "false"
		}
		out = append(out, t)
	}
	switch len(out) {
	case 0:
		return "true"
	case 1:
		return out[0]
	}
	return "(and " + strings.Join(out, " ") + ")"
}
func or(ts ...string) string {
	var out []string
	for _, t := range ts {
		if t == "false" || t == "" {
			continue
		}
		if t == "true" {
			return "true"
		}
		out = append(out, t)
	}
	switch len(out) {
	case 0:
		return "false"
	case 1:
		return out[0]
	}
	return "(or " + strings.Join(out, " ") + ")"
}
func not(t string) string {
	switch t {
	case "true":
		return "false"
	case "false":
		return "true"
	}
	if strings.HasPrefix(t, "(not ") && balanced(t[5:len(t)-1]) {
		return t[5 : len(t)-1]
	}
	return "(not " + t + ")"
}
func balanced(s string) bool {
	d := 0
	for _, c := range s {
		if c == '(' {
			d++
		} else if c == ')' {
			d--
			if d < 0 {
				return false
			}
		}
	}
	return d == 0
}
func imp(a, b string) string {
	if a == "true" {
		return b
	}
	if a == "false" || b == "true" {
		return "true"
	}
	return "(=> " + a + " " + b + ")"
}
func eq(a, b string) string {
	if a == b {
		return "true"
	}
	return "(= " + a + " " + b + ")"
}
func ite(c, a, b string) string {
	if c == "true" {
		return a
	}
	if c == "false" {
		return b
	}
	if a == b {
		return a
	}
	return "(ite " + c + " " + a + " " + b + ")"
}
func app(f string, args ...string) string {
	return "(" + f + " " + strings.Join(args, " ") + ")"
}
func add(a, b string) string {
	if a == "0" {
		return b
	}
	if b == "0" {
		return a
	}
	return "(+ " + a + " " + b + ")"
}
func sub(a, b string) string {
	if b == "0" {
		return a
	}
	return "(- " + a + " " + b + ")"
}
func intLit(n int64) string {
	if n < 0 {
		return fmt.Sprintf("(- %d)", -n)
	}
	return fmt.Sprintf("%d", n)
}

// valEq gives componentwise equality of two values of the same shape.
// Strings compare by representation here; use strEq for content equality.
func valEq(a, b Val) string {
	if len(a.C) != len(b.C) {
		panic(fmt.Sprintf("valEq arity %v %v", a, b))
	}
	var cs []string
	for i := range a.C {
		cs = append(cs, eq(a.C[i], b.C[i]))
	}
	return and(cs...)
}

func sanitize(s string) string {
	var b strings.Builder
	for _, c := range s {
		switch {
		case c >= 'a' && c <= 'z', c >= 'A' && c <= 'Z', c >= '0' && c <= '9', c == '_', c == '.':
			b.WriteRune(c)
		default:
			b.WriteByte('_')
		}
	}
	return b.String()
}

// strOffsetIdx lists the component indices of t that are string offsets. A fresh
// (unknown) string value is always created with offset 0: every string value has
// such a representation, and solvers match (select a k) far better than
// (select a (+ o k)).
func strOffsetIdx(t types.Type) map[int]bool {
	out := map[int]bool{}
	var walk func(t types.Type, base int) int
	walk = func(t types.Type, base int) int {
		switch u := t.Underlying().(type) {
		case *types.Basic:
			if u.Info()&types.IsString != 0 {
				out[base+1] = true
				return 3
			}
			return 1
		case *types.Struct:
			n := 0
			for i := 0; i < u.NumFields(); i++ {
				n += walk(u.Field(i).Type(), base+n)
			}
			return n
		case *types.Tuple:
			n := 0
			for i := 0; i < u.Len(); i++ {
				n += walk(u.At(i).Type(), base+n)
			}
			return n
		}
		return len(flatten(t))
	}
	walk(t, 0)
	return out
}
