package main

import (
	"bytes"

	"context"
	"fmt"
	"go/token"
	"go/types"
	"golang.org/x/tools/go/ssa"
	"os"
	"os/exec"
	"path/filepath"
	"regexp"
	"sort"
	"strings"
	"sync"
	"time"
)

const preamble = `(declare-fun strkey ((Array Int Int) Int Int) Int)
(declare-fun sub (Int Int) Int)
(declare-fun subBase (Int) Int)
(declare-fun subIdx (Int) Int)
(declare-fun wfopen (Int) Bool)
(declare-fun chancap (Int) Int)
(assert (forall ((r Int) (k Int)) (! (and (= (subBase (sub r k)) r) (= (subIdx (sub r k)) k) (< (sub r k) 0)) :pattern ((sub r k)))))
(define-fun streq ((a1 (Array Int Int)) (o1 Int) (n1 Int) (a2 (Array Int Int)) (o2 Int) (n2 Int)) Bool
  (and (= n1 n2) (forall ((j Int)) (! (=> (and (<= o1 j) (< j (+ o1 n1))) (= (select a1 j) (select a2 (+ o2 (- j o1))))) :pattern ((select a1 j))))
       (forall ((j Int)) (! (=> (and (<= o2 j) (< j (+ o2 n2))) (= (select a2 j) (select a1 (+ o1 (- j o2))))) :pattern ((select a2 j))))))
`

// specFuncSMT renders the spec functions in `used` (transitively closed) in dependency order.
func (w *World) specFuncSMT(used map[string]bool) string {
	return w.specFuncSMTOpaque(used, nil)
}

func (w *World) specFuncSMTOpaque(used map[string]bool, opaque map[string]bool) string {
	type rendered struct {
		text string
		deps []string
		rec  bool
	}
	done := map[string]*rendered{}
	var render func(name string)
	var order []string
	render = func(name string) {
		if _, ok := done[name]; ok {
			return
		}
		sf := w.Specs.SpecFuncs[name]
		if sf == nil {
			panic("unknown spec func " + name)
		}
		r := &rendered{}
		done[name] = r
		tmp := &Enc{W: w, used: map[string]bool{}, sorts: map[string]string{}}
		vars := map[string]Val{}
		var ps []string
		for _, p := range sf.Params {
			t := specType(p.Type)
			v := Val{T: t}
			cn := compNames(t)
			for j, s := range flatten(t) {
				n := p.Name
				if len(flatten(t)) > 1 {
					n = p.Name + "." + cn[j]
				}
				v.C = append(v.C, n)
				ps = append(ps, "("+n+" "+s+")")
			}
			vars[p.Name] = v
		}
		rt := flatten(specType(sf.Ret))[0]
		if sf.Uninterp || opaque[name] {
			var ss []string
			for _, p := range sf.Params {
				ss = append(ss, flatten(specType(p.Type))...)
			}
			r.text = fmt.Sprintf("(declare-fun %s (%s) %s)\n", name, strings.Join(ss, " "), rt)
			order = append(order, name)
			return
		}
		c := &Ctx{E: tmp, Vars: vars, where: "spec func " + name}
		body := c.tr(sf.Body)
		for d := range tmp.used {
			r.deps = append(r.deps, d)
			if d == name {
				r.rec = true
			}
		}
		sort.Strings(r.deps)
		for _, d := range r.deps {
			if d != name {
				render(d)
			}
		}
		kw := "define-fun"
		if r.rec {
			kw = "define-fun-rec"
		}
		r.text = fmt.Sprintf("(%s %s (%s) %s\n  %s)\n", kw, name, strings.Join(ps, " "), rt, body.C[0])
		order = append(order, name)
	}
	var names []string
	for n := range used {
		names = append(names, n)
	}
	sort.Strings(names)
	for _, n := range names {
		render(n)
	}
	var b strings.Builder
	for _, n := range order {
		b.WriteString(done[n].text)
	}
	return b.String()
}

var appRe = regexp.MustCompile(`\(([A-Za-z_][\w]*)[ )]`)

// recReach maps every spec function to the recursive spec functions it can reach.
func (w *World) recReach() map[string]map[string]bool {
	if w.recCache != nil {
		return w.recCache
	}
	direct := map[string]map[string]bool{}
	for name, sf := range w.Specs.SpecFuncs {
		direct[name] = map[string]bool{}
		if sf.Body == nil {
			continue
		}
		for _, m := range regexp.MustCompile(`([A-Za-z_]\w*)\(`).FindAllStringSubmatch(sf.Src, -1) {
			if _, ok := w.Specs.SpecFuncs[m[1]]; ok {
				direct[name][m[1]] = true
			}
		}
	}
	reach := map[string]map[string]bool{}
	for name := range direct {
		seen := map[string]bool{}
		var dfs func(n string)
		dfs = func(n string) {
			for d := range direct[n] {
				if !seen[d] {
					seen[d] = true
					dfs(d)
				}
			}
		}
		dfs(name)
		r := map[string]bool{}
		for n := range seen {
			if direct[n][n] || (n == name && direct[name][name]) {
				r[n] = true
			}
		}
		if direct[name][name] {
			r[name] = true
		}
		reach[name] = r
	}
	w.recCache = reach
	return reach
}

// recFuncsIn lists the recursive spec functions a term depends on.
func (w *World) recFuncsIn(term string) map[string]bool {
	out := map[string]bool{}
	reach := w.recReach()
	for _, m := range appRe.FindAllStringSubmatch(term, -1) {
		if r, ok := reach[m[1]]; ok {
			for k := range r {
				out[k] = true
			}
		}
	}
	return out
}

func subset(a, b map[string]bool) bool {
	for k := range a {
		if !b[k] {
			return false
		}
	}
	return true
}

func (w *World) hasRec(used map[string]bool) bool {
	return strings.Contains(w.specFuncSMT(used), "define-fun-rec")
}

type Obligation struct {
	SMTLean string // relevance-filtered variant (facts about unrelated recursive spec functions dropped); "" if identical
	Name    string
	Class   string
	Src     string
	Where   string
	Canary  bool
	SMT     string // full query text
	Values  []string
	HasRec  bool
	Func    string
	// result
	Status  string // unsat | sat | unknown | timeout | error
	Backend string
	Secs    float64
	Model   map[string]string
	Raw     string
	Lemma   bool
	Blk     *ssa.BasicBlock
}

// queries builds one SMT query per assertion of an encoded function.
func (e *Enc) queries(extraAxioms string) []*Obligation {
	var out []*Obligation
	extraAxioms += e.lemmaAxioms()
	opaque := map[string]bool{}
	if e.spec != nil {
		for _, o := range e.spec.Opaque {
			opaque[o] = true
		}
	}
	specs := e.W.specFuncSMTOpaque(e.used, opaque)
	hasRec := strings.Contains(specs, "define-fun-rec")
	var decls strings.Builder
	// declarations first (all of them: later declarations are harmless)
	for _, it := range e.items {
		if it.Kind == IDecl {
			if it.Class == "fun" {
				fmt.Fprintf(&decls, "(declare-fun %s %s)\n", it.Name, it.Term)
			} else {
				fmt.Fprintf(&decls, "(declare-const %s %s)\n", it.Name, it.Term)
			}
		}
	}
	extraAxioms += e.strKeyAxioms() + e.implAxioms()
	// input values to report from models
	var values []string
	for _, p := range e.fn.Params {
		v := e.regs[p]
		for j, c := range v.C {
			if flatten(v.T)[j] != SArr {
				values = append(values, c)
			}
		}
		if isString(v.T) {
			for i := 0; i < 24; i++ {
				values = append(values, fmt.Sprintf("(select %s (+ %s %d))", v.C[0], v.C[1], i))
			}
		}
	}
	type fact struct {
		text string
		rec  map[string]bool
	}
	var facts []fact
	addFact := func(t string) {
		facts = append(facts, fact{"(assert " + t + ")\n", e.W.recFuncsIn(t)})
	}
	render := func(goalRec map[string]bool) (string, bool) {
		var b strings.Builder
		dropped := false
		for _, f := range facts {
			if goalRec != nil && !subset(f.rec, goalRec) {
				dropped = true
				continue
			}
			b.WriteString(f.text)
		}
		return b.String(), dropped
	}
	for _, it := range e.items {
		switch it.Kind {
		case IDef:
			addFact(it.Term)
		case IAssume:
			addFact(imp(it.Guard, it.Term))
		case IAssert:
			head := "(set-option :produce-models true)\n(set-logic ALL)\n" + preamble + specs + decls.String() + extraAxioms
			goal := fmt.Sprintf("(assert %s)\n(check-sat)\n", and(it.Guard, not(it.Term)))
			if len(values) > 0 {
				goal += "(get-value (" + strings.Join(values, " ") + "))\n"
			}
			full, _ := render(nil)
			q := head + full + goal
			lean := ""
			if fl, dropped := render(e.W.recFuncsIn(it.Term)); dropped {
				lean = head + fl + goal
			}
			w := ""
			if it.Pos.IsValid() {
				p := e.W.Fset.Position(it.Pos)
				w = fmt.Sprintf("%s:%d", shortFile(p.Filename), p.Line)
			}
			canary := it.Canary
			if canary && e.spec != nil {
				for _, d := range e.spec.Dead {
					if strings.HasPrefix(d, "src:") {
						// `dead src:<text>`: the canary whose source line contains <text>
						if it.Pos.IsValid() && strings.Contains(srcLine(e.W, it.Pos), strings.TrimPrefix(d, "src:")) {
							canary = false
							it.Class = "dead"
						}
						continue
					}
					if strings.HasSuffix(it.Name, "#canary."+d) {
						canary = false // declared dead code: unreachability is a proof obligation
						it.Class = "dead"
					}
				}
			}
			out = append(out, &Obligation{Name: it.Name, Class: it.Class, Src: it.Src, Where: w, Canary: canary, SMT: q, SMTLean: lean, Values: values, HasRec: hasRec, Func: e.key, Blk: it.Blk})
			if !it.Canary {
				// later obligations may assume this one (well-founded: program order)
				addFact(imp(it.Guard, it.Term))
			}
		}
	}
	return out
}

type solverCmd struct {
	name string
	args func(file string, secs int) []string
}

var solvers = []solverCmd{
	{"z3-new", func(f string, s int) []string { return []string{"z3-new", fmt.Sprintf("-T:%d", s), f} }},
	{"cvc5", func(f string, s int) []string { return []string{"cvc5", fmt.Sprintf("--tlimit=%d", s*1000), f} }},
	{"cvc5-fmf", func(f string, s int) []string {
		return []string{"cvc5", "--fmf-fun", fmt.Sprintf("--tlimit=%d", s*1000), f}
	}},
	{"z3", func(f string, s int) []string { return []string{"z3", fmt.Sprintf("-T:%d", s), f} }},
}

type solveResult struct {
	status  string
	backend string
	secs    float64
	raw     string
}

func runOne(ctx context.Context, sc solverCmd, file string, secs int) solveResult {
	t0 := time.Now()
	a := sc.args(file, secs)
	cctx, cancel := context.WithTimeout(ctx, time.Duration(secs+2)*time.Second)
	defer cancel()
	cmd := exec.CommandContext(cctx, a[0], a[1:]...)
	var out bytes.Buffer
	cmd.Stdout = &out
	cmd.Stderr = &out
	cmd.Run()
	s := out.String()
	first := strings.TrimSpace(strings.SplitN(s, "\n", 2)[0])
	st := "unknown"
	switch first {
	case "unsat":
		st = "unsat"
	case "sat":
		st = "sat"
	case "timeout":
		st = "timeout"
	case "unknown":
		st = "unknown"
	default:
		if strings.Contains(s, "timeout") || cctx.Err() != nil {
			st = "timeout"
		} else if strings.Contains(s, "error") {
			st = "error"
		}
	}
	return solveResult{st, sc.name, time.Since(t0).Seconds(), s}
}

// solve races the back ends on one obligation.
func solve(o *Obligation, dir string, secs int, all bool) {
	file := filepath.Join(dir, sanitize(o.Name)+".smt2")
	if err := os.WriteFile(file, []byte(o.SMT), 0o644); err != nil {
		panic(err)
	}
	if len(o.SMT) > 4<<20 {
		o.Status = "error"
		o.Raw = "VC size cap exceeded"
		return
	}
	var use []solverCmd
	if o.Canary {
		use = []solverCmd{solvers[0]}
	} else if o.HasRec {
		use = []solverCmd{solvers[0], solvers[1], solvers[2]}
	} else {
		use = []solverCmd{solvers[0], solvers[1], solvers[3]}
	}
	ctx, cancel := context.WithCancel(context.Background())
	defer cancel()
	type job struct {
		sc   solverCmd
		file string
	}
	var jobs []job
	for _, sc := range use {
		jobs = append(jobs, job{sc, file})
	}
	if o.SMTLean != "" && !o.Canary {
		lf := filepath.Join(dir, sanitize(o.Name)+".lean.smt2")
		os.WriteFile(lf, []byte(o.SMTLean), 0o644)
		for _, sc := range use[:2] {
			jobs = append(jobs, job{solverCmd{sc.name + "/lean", sc.args}, lf})
		}
	}
	ch := make(chan solveResult, len(jobs))
	for _, j := range jobs {
		j := j
		go func() {
			r := runOne(ctx, j.sc, j.file, secs)
			if strings.HasSuffix(j.sc.name, "/lean") && r.status == "sat" {
				r.status = "unknown" // a model of the weakened query proves nothing
			}
			ch <- r
		}()
	}
	var results []solveResult
	var best *solveResult
	for range jobs {
		r := <-ch
		results = append(results, r)
		if (r.status == "unsat" || r.status == "sat") && best == nil {
			rr := r
			best = &rr
			if !all {
				cancel()
				break
			}
		}
	}
	if all && best != nil {
		// disagreement check
		for _, r := range results {
			if (r.status == "unsat" || r.status == "sat") && r.status != best.status {
				o.Status = "error"
				o.Raw = fmt.Sprintf("solver disagreement: %s says %s, %s says %s", best.backend, best.status, r.backend, r.status)
				return
			}
		}
	}
	if best != nil {
		o.Status, o.Backend, o.Secs, o.Raw = best.status, best.backend, best.secs, best.raw
		if best.status == "sat" {
			o.Model = parseValues(best.raw, o.Values)
		}
		return
	}
	// undecided: report the most informative
	o.Status = "unknown"
	for _, r := range results {
		if r.status == "timeout" {
			o.Status = "timeout"
		}
		o.Raw += fmt.Sprintf("[%s] %s\n", r.backend, firstLines(r.raw, 3))
		if r.secs > o.Secs {
			o.Secs = r.secs
		}
		if r.status == "error" {
			o.Status = "error"
		}
	}
}

func firstLines(s string, n int) string {
	ls := strings.Split(s, "\n")
	if len(ls) > n {
		ls = ls[:n]
	}
	return strings.Join(ls, " | ")
}

var valRe = regexp.MustCompile(`\(\s*((?:\([^()]*(?:\([^()]*\)[^()]*)*\))|[^\s()]+)\s+((?:\(-\s*\d+\))|-?\d+|true|false)\s*\)`)

// parseValues reads a (get-value ...) answer.
func parseValues(raw string, names []string) map[string]string {
	m := map[string]string{}
	i := strings.Index(raw, "((")
	if i < 0 {
		return m
	}
	body := raw[i:]
	ms := valRe.FindAllStringSubmatch(body, -1)
	for k, mm := range ms {
		if k < len(names) {
			v := strings.ReplaceAll(strings.ReplaceAll(strings.ReplaceAll(mm[2], "(- ", "-"), "(-", "-"), ")", "")
			m[names[k]] = strings.TrimSpace(v)
		}
	}
	return m
}

func solveAll(obs []*Obligation, dir string, secs int, all bool, par int) {
	var wg sync.WaitGroup
	sem := make(chan struct{}, par)
	for _, o := range obs {
		o := o
		wg.Add(1)
		sem <- struct{}{}
		go func() {
			defer wg.Done()
			defer func() { <-sem }()
			s := secs
			if o.Canary {
				s = 2
			}
			solve(o, dir, s, all && !o.Canary)
		}()
	}
	wg.Wait()
}

// implAxioms: which registered concrete types implement the interfaces tested by type assertions.
func (e *Enc) implAxioms() string {
	var b strings.Builder
	var names []string
	for n := range e.implUsed {
		names = append(names, n)
	}
	sort.Strings(names)
	for _, n := range names {
		it := e.implUsed[n].Underlying().(*types.Interface)
		for id, t := range typeTagTypes {
			if types.Implements(t, it) {
				fmt.Fprintf(&b, "(assert (%s %d))\n", n, id)
			} else {
				fmt.Fprintf(&b, "(assert (not (%s %d)))\n", n, id)
			}
		}
	}
	return b.String()
}

var srcCache = map[string][]string{}

func srcLine(w *World, pos token.Pos) string {
	p := w.Fset.Position(pos)
	ls, ok := srcCache[p.Filename]
	if !ok {
		b, _ := os.ReadFile(p.Filename)
		ls = strings.Split(string(b), "\n")
		srcCache[p.Filename] = ls
	}
	if p.Line >= 1 && p.Line <= len(ls) {
		return ls[p.Line-1]
	}
	return ""
}
