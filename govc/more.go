package main

// Parts of the subset beyond scalars and strings: nested structs, interfaces, maps,
// closures, function values (callback contracts), defer/recover, go statements.

import (
	"fmt"
	"go/constant"
	"go/token"
	"go/types"
	"sort"
	"strings"

	"golang.org/x/tools/go/ssa"
)

// ---------- interior pointers of nested structs ----------

// subRef is the reference of the k-th field (a struct by value) nested in object r.
// Injective for 0 <= k < 64 and disjoint from nil (0) and allocated refs (> 0).
func subRef(r string, k int) string {
	return fmt.Sprintf("(sub %s %d)", r, k)
}

// ---------- interfaces ----------

var typeTags = map[string]int{}
var typeTagTypes = map[int]types.Type{}

func typeTag(t types.Type) string {
	k := t.String()
	if id, ok := typeTags[k]; ok {
		return fmt.Sprint(id)
	}
	id := len(typeTags) + 1
	typeTags[k] = id
	typeTagTypes[id] = t
	return fmt.Sprint(id)
}

func pointerShaped(t types.Type) bool {
	switch t.Underlying().(type) {
	case *types.Pointer, *types.Map, *types.Chan, *types.Signature:
		return true
	}
	if b, ok := t.Underlying().(*types.Basic); ok && b.Kind() == types.UnsafePointer {
		return true
	}
	return false
}

func boxKey(t types.Type, j int) string { return fmt.Sprintf("m:box.%s:%d", typeKey(t), j) }

func (e *Enc) boxLoad(st *State, t types.Type, ref string) Val {
	v := Val{T: t}
	for j, so := range flatten(t) {
		h := e.heapKey(st, boxKey(t, j), "(Array Int "+so+")")
		v.C = append(v.C, app("select", h, ref))
	}
	return v
}

func (bs *blockState) makeIface(t types.Type, v Val, name string) (tag, payload string) {
	e := bs.e
	tag = typeTag(t)
	if pointerShaped(t) {
		return tag, v.C[0]
	}
	r := e.allocRef(bs.st, bs.g, name)
	for j, so := range flatten(t) {
		k := boxKey(t, j)
		h := e.heapKey(bs.st, k, "(Array Int "+so+")")
		nh := e.fresh("BOX."+typeKey(t), "(Array Int "+so+")")
		e.def(eq(nh, app("store", h, r, v.C[j])))
		bs.st.m[k] = nh
	}
	return tag, r
}

func (bs *blockState) makeInterface(x *ssa.MakeInterface) {
	v := bs.val(x.X)
	tag, pl := bs.makeIface(x.X.Type(), v, x.Name())
	bs.e.dynType[pl] = x.X.Type()
	bs.e.regs[x] = Val{x.Type(), []string{tag, pl}}
}

// implementsPred: does the dynamic type with this tag implement iface?
func (e *Enc) implementsPred(iface types.Type, tag string) string {
	it, ok := iface.Underlying().(*types.Interface)
	if !ok {
		unsupp("type assertion to %s", iface)
	}
	if it.NumMethods() == 0 {
		return not(eq(tag, "0"))
	}
	name := "impl." + sanitize(typeKey(iface))
	if _, ok := e.sorts["decl:"+name]; !ok {
		e.sorts["decl:"+name] = "fun"
		e.items = append(e.items, Item{Kind: IDecl, Name: name, Term: "(Int) Bool", Class: "fun"})
		e.def(not(app(name, "0")))
	}
	e.implUsed[name] = iface
	return app(name, tag)
}

func (bs *blockState) typeAssert(x *ssa.TypeAssert) {
	e := bs.e
	v := bs.val(x.X)
	tag, pl := v.C[0], v.C[1]
	var ok string
	var res Val
	if _, isI := x.AssertedType.Underlying().(*types.Interface); isI {
		ok = e.implementsPred(x.AssertedType, tag)
		res = Val{x.AssertedType, []string{tag, pl}}
	} else {
		ok = eq(tag, typeTag(x.AssertedType))
		if pointerShaped(x.AssertedType) {
			res = Val{x.AssertedType, []string{pl}}
		} else {
			res = e.boxLoad(bs.st, x.AssertedType, pl)
		}
	}
	if x.CommaOk {
		okc := e.fresh(x.Name()+".ok", SBool)
		e.def(eq(okc, ok))
		z := zeroVal(x.AssertedType)
		out := Val{T: x.Type()}
		for j := range res.C {
			out.C = append(out.C, ite(okc, res.C[j], z.C[j]))
		}
		out.C = append(out.C, okc)
		bs.setReg(x, out)
		return
	}
	// single-value form panics on failure
	bs.assertOrRaise(fmt.Sprintf("typeassert.%d", e.ordinal("typeassert")), ok, "type assertion may fail", x)
	e.regs[x] = res
}

// assertOrRaise: a run-time check. In a function that is allowed to panic the failing
// case becomes an exceptional edge; otherwise it is a proof obligation.
func (bs *blockState) assertOrRaise(name, cond, why string, ins ssa.Instruction) {
	bs.assertG(name, "nil", cond, why, ins)
}

// ---------- nested struct fields ----------

func (e *Enc) loadFieldDeep(st *State, stT types.Type, fidx int, ref string) Val {
	s := stT.Underlying().(*types.Struct)
	ft := s.Field(fidx).Type()
	if _, ok := ft.Underlying().(*types.Struct); ok {
		return e.loadPtr(st, ft, subRef(ref, fidx))
	}
	return e.loadFieldFlat(st, stT, fidx, ref)
}

func (e *Enc) storeFieldDeep(st *State, stT types.Type, fidx int, ref string, v Val) {
	s := stT.Underlying().(*types.Struct)
	ft := s.Field(fidx).Type()
	if _, ok := ft.Underlying().(*types.Struct); ok {
		e.storePtr(st, ft, subRef(ref, fidx), v)
		return
	}
	e.storeFieldFlat(st, stT, fidx, ref, v)
}

// ---------- maps ----------

func mapKeyId(e *Enc, kt types.Type, k Val) string {
	if isString(kt) {
		e.strKeys = append(e.strKeys, k)
		return app("strkey", k.C[0], k.C[1], k.C[2])
	}
	if len(k.C) == 1 {
		return k.C[0]
	}
	unsupp("map key type %s", kt)
	return ""
}

func mapHasKey(mt types.Type) string        { return "map." + typeKey(mt) + ":has" }
func mapValKey(mt types.Type, j int) string { return fmt.Sprintf("map.%s:val:%d", typeKey(mt), j) }

func (e *Enc) mapHas(st *State, mt types.Type) string {
	return e.heapKey(st, mapHasKey(mt), "(Array Int (Array Int Bool))")
}

func (e *Enc) mapGet(st *State, mt *types.Map, m, kid string) (has string, v Val) {
	h := e.mapHas(st, mt)
	has = and(not(eq(m, "0")), app("select", app("select", h, m), kid))
	v = Val{T: mt.Elem()}
	z := zeroVal(mt.Elem())
	for j, so := range flatten(mt.Elem()) {
		vh := e.heapKey(st, mapValKey(mt, j), "(Array Int (Array Int "+so+"))")
		v.C = append(v.C, ite(has, app("select", app("select", vh, m), kid), z.C[j]))
	}
	return
}

func (bs *blockState) mapLookup(x *ssa.Lookup) {
	e := bs.e
	mt := x.X.Type().Underlying().(*types.Map)
	m := bs.val(x.X).C[0]
	kid := mapKeyId(e, mt.Key(), bs.val(x.Index))
	has, v := e.mapGet(bs.st, mt, m, kid)
	if x.CommaOk {
		v.C = append(v.C, has)
		v.T = x.Type()
	}
	bs.setReg(x, v)
}

func (bs *blockState) makeMap(x *ssa.MakeMap) {
	e := bs.e
	mt := x.Type().Underlying().(*types.Map)
	r := e.allocRef(bs.st, bs.g, x.Name())
	hk := mapHasKey(mt)
	h := e.mapHas(bs.st, mt)
	nh := e.fresh("MAPHAS", "(Array Int (Array Int Bool))")
	e.def(eq(nh, app("store", h, r, "((as const (Array Int Bool)) false)")))
	bs.st.m[hk] = nh
	c := e.heapKey(bs.st, "map.card", "(Array Int Int)")
	nc := e.fresh("MAPCARD", "(Array Int Int)")
	e.def(eq(nc, app("store", c, r, "0")))
	bs.st.m["map.card"] = nc
	e.regs[x] = Val{x.Type(), []string{r}}
}

// mapVarName: the variable or field a map operand was read from (for ghost anchors `mapupdate <name>#k before`)
func mapVarName(v ssa.Value) string {
	if u, ok := v.(*ssa.UnOp); ok {
		switch a := u.X.(type) {
		case *ssa.Alloc:
			return a.Comment
		case *ssa.FreeVar:
			return a.Name()
		case *ssa.FieldAddr:
			return a.X.Type().Underlying().(*types.Pointer).Elem().Underlying().(*types.Struct).Field(a.Field).Name()
		}
	}
	return ""
}

func (bs *blockState) mapUpdate(x *ssa.MapUpdate) {
	e := bs.e
	mt := x.Map.Type().Underlying().(*types.Map)
	if name := mapVarName(x.Map); name != "" && e.spec != nil && len(e.spec.Ghost) > 0 {
		// ordinal among the updates of maps read from that name, in block order
		n, ord := 0, 0
		for _, b := range e.fn.Blocks {
			for _, ins := range b.Instrs {
				if mu, ok := ins.(*ssa.MapUpdate); ok && mapVarName(mu.Map) == name {
					n++
					if mu == x {
						ord = n
					}
				}
			}
		}
		kv := bs.val(x.Key)
		bs.ghostAt(fmt.Sprintf("mapupdate %s#%d before", name, ord), x, map[string]Val{"key": kv, "value": bs.val(x.Value)})
	}
	m := bs.val(x.Map).C[0]
	bs.assertG(fmt.Sprintf("nilmap.%d", e.ordinal("nilmap")), "nil", not(eq(m, "0")), "assignment to entry in nil map", x)
	kid := mapKeyId(e, mt.Key(), bs.val(x.Key))
	v := bs.val(x.Value)
	hk := mapHasKey(mt)
	h := e.mapHas(bs.st, mt)
	had := app("select", app("select", h, m), kid)
	c := e.heapKey(bs.st, "map.card", "(Array Int Int)")
	nc := e.fresh("MAPCARD", "(Array Int Int)")
	e.def(eq(nc, app("store", c, m, ite(had, app("select", c, m), add(app("select", c, m), "1")))))
	bs.st.m["map.card"] = nc
	nh := e.fresh("MAPHAS", "(Array Int (Array Int Bool))")
	e.def(eq(nh, app("store", h, m, app("store", app("select", h, m), kid, "true"))))
	bs.st.m[hk] = nh
	for j, so := range flatten(mt.Elem()) {
		vk := mapValKey(mt, j)
		vh := e.heapKey(bs.st, vk, "(Array Int (Array Int "+so+"))")
		nv := e.fresh("MAPVAL", "(Array Int (Array Int "+so+"))")
		e.def(eq(nv, app("store", vh, m, app("store", app("select", vh, m), kid, v.C[j]))))
		bs.st.m[vk] = nv
	}
}

func (bs *blockState) mapDelete(x *ssa.Call) {
	e := bs.e
	mt := x.Call.Args[0].Type().Underlying().(*types.Map)
	m := bs.val(x.Call.Args[0]).C[0]
	kid := mapKeyId(e, mt.Key(), bs.val(x.Call.Args[1]))
	hk := mapHasKey(mt)
	h := e.mapHas(bs.st, mt)
	had := and(not(eq(m, "0")), app("select", app("select", h, m), kid))
	c := e.heapKey(bs.st, "map.card", "(Array Int Int)")
	nc := e.fresh("MAPCARD", "(Array Int Int)")
	e.def(eq(nc, ite(had, app("store", c, m, sub(app("select", c, m), "1")), c)))
	bs.st.m["map.card"] = nc
	nh := e.fresh("MAPHAS", "(Array Int (Array Int Bool))")
	e.def(eq(nh, ite(eq(m, "0"), h, app("store", h, m, app("store", app("select", h, m), kid, "false")))))
	bs.st.m[hk] = nh
}

// range over a map: arbitrary enumeration with a ghost `seen` set.
func (bs *blockState) rangeMap(x *ssa.Range) {
	e := bs.e
	k := "it:" + x.Name()
	e.sorts[k] = "(Array Int Bool)"
	e.sorts[k+":n"] = SInt
	bs.st.m[k] = "((as const (Array Int Bool)) false)"
	bs.st.m[k+":n"] = "0"
	e.iterMap[x] = bs.val(x.X)
}

func (bs *blockState) nextMap(x *ssa.Next) {
	e := bs.e
	rg := x.Iter.(*ssa.Range)
	mt := rg.X.Type().Underlying().(*types.Map)
	m := e.iterMap[rg].C[0]
	k := "it:" + rg.Name()
	seen, n := bs.st.m[k], bs.st.m[k+":n"]
	card := ite(eq(m, "0"), "0", app("select", e.heapKey(bs.st, "map.card", "(Array Int Int)"), m))
	ok := e.fresh(x.Name()+".ok", SBool)
	e.def(eq(ok, app("<", n, card)))
	key := e.freshVal(x.Name()+".k", mt.Key())
	e.assume(bs.g, e.typeFacts(key))
	kid := mapKeyId(e, mt.Key(), key)
	has, v := e.mapGet(bs.st, mt, m, kid)
	e.def(imp(ok, and(has, not(app("select", seen, kid)))))
	// when the iteration ends every key of the (unmodified) map has been visited
	qk := e.freshName("k")
	hm := e.mapHas(bs.st, mt)
	e.def(imp(not(ok), fmt.Sprintf("(forall ((%s Int)) (! (=> (and (not (= %s 0)) (select (select %s %s) %s)) (select %s %s)) :pattern ((select (select %s %s) %s))))", qk, m, hm, m, qk, seen, qk, hm, m, qk)))
	ns := e.fresh("seen", "(Array Int Bool)")
	e.def(eq(ns, ite(ok, app("store", seen, kid, "true"), seen)))
	nn := e.fresh("seen.n", SInt)
	e.def(eq(nn, ite(ok, add(n, "1"), n)))
	bs.st.m[k], bs.st.m[k+":n"] = ns, nn
	out := Val{T: x.Type(), C: []string{ok}}
	// an unused key or value has the invalid type in the result tuple (one dummy component)
	tup := x.Type().(*types.Tuple)
	if len(flatten(tup.At(1).Type())) == len(key.C) {
		out.C = append(out.C, key.C...)
	} else {
		out.C = append(out.C, "0")
	}
	if len(flatten(tup.At(2).Type())) == len(v.C) {
		out.C = append(out.C, v.C...)
	} else {
		out.C = append(out.C, "0")
	}
	e.regs[x] = out
}

// ---------- closures, function values, callbacks ----------

func (bs *blockState) makeClosure(x *ssa.MakeClosure) {
	e := bs.e
	e.closures[x] = x
	// the closure value itself: a fresh non-nil function reference
	r := e.fresh("clo."+x.Name(), SInt)
	e.def(app("<", r, "0"))
	e.regs[x] = Val{x.Type(), []string{r}}
	e.closureOf[r] = x
}

// calleeDesignator names the function value being called: the field or variable it was read from.
func calleeDesignator(v ssa.Value) string {
	switch x := v.(type) {
	case *ssa.UnOp:
		switch a := x.X.(type) {
		case *ssa.Alloc:
			return a.Comment
		case *ssa.FieldAddr:
			st := a.X.Type().Underlying().(*types.Pointer).Elem().Underlying().(*types.Struct)
			return st.Field(a.Field).Name()
		case *ssa.IndexAddr:
			return calleeDesignator(a.X) + "[]"
		case *ssa.FreeVar:
			return a.Name()
		case *ssa.Global:
			return a.Name()
		}
	case *ssa.Field:
		st := x.X.Type().Underlying().(*types.Struct)
		return st.Field(x.Field).Name()
	case *ssa.Parameter:
		return x.Name()
	case *ssa.Extract:
		return calleeDesignator(x.Tuple)
	case *ssa.Lookup:
		return calleeDesignator(x.X) + "[]"
	case *ssa.Phi:
		return x.Comment
	case *ssa.FreeVar:
		return x.Name()
	case *ssa.TypeAssert:
		return calleeDesignator(x.X)
	case *ssa.ChangeType:
		return calleeDesignator(x.X)
	case *ssa.Call:
		if f := x.Call.StaticCallee(); f != nil {
			return f.Name() + "()"
		}
	}
	return v.Name()
}

func (bs *blockState) callFuncValue(x *ssa.Call) {
	e := bs.e
	fv := bs.val(x.Call.Value)
	// closure created in this function and called directly?
	if mc, ok := e.closureOf[fv.C[0]]; ok {
		bs.callClosure(x, mc)
		return
	}
	des := calleeDesignator(x.Call.Value)
	var cbName string
	if e.spec != nil {
		cbName = e.spec.Callbacks[des]
	}
	if cbName == "" {
		// named function type with a default callback contract?
		if n, ok := x.Call.Value.Type().(*types.Named); ok {
			cbName = n.Obj().Name()
		}
	}
	spec := e.W.Specs.Funcs["callback."+cbName]
	if spec == nil {
		unsupp("call of function value %q: no callback contract (callback %s <name>)", des, des)
	}
	bs.assertG(fmt.Sprintf("nilfunc.%d", e.ordinal("nilfunc")), "nil", not(eq(fv.C[0], "0")), "call of nil function "+des, x)
	var args []Val
	for _, a := range x.Call.Args {
		args = append(args, bs.val(a))
	}
	// callback contracts may name the function value itself as first parameter "self"
	if spec.AnyArgs {
		args = []Val{fv}
	} else if len(spec.Params) == len(args)+1 && spec.Params[0].Name == "self" {
		args = append([]Val{fv}, args...)
	}
	var rt types.Type
	if x.Type() != nil && !isEmptyTuple(x.Type()) {
		rt = x.Type()
	}
	res := bs.applyContract(spec, "callback."+cbName, args, x, rt)
	if rt != nil {
		e.regs[x] = res
	}
}

func isEmptyTuple(t types.Type) bool {
	tup, ok := t.(*types.Tuple)
	return ok && tup.Len() == 0
}

// callClosure: a closure defined in this function. Its anonymous function is verified on its
// own against its contract; here the contract is applied with the captured variables bound.
func (bs *blockState) callClosure(x *ssa.Call, mc *ssa.MakeClosure) {
	var args []Val
	for _, a := range x.Call.Args {
		args = append(args, bs.val(a))
	}
	var rt types.Type
	if x.Type() != nil && !isEmptyTuple(x.Type()) {
		rt = x.Type()
	}
	res := bs.applyClosure(mc, args, x, rt, nil)
	if rt != nil {
		bs.e.regs[x] = res
	}
}

// applyClosure applies the contract of an anonymous function at a call / defer site.
// Free variables are visible in the contract under their source names, with their current values.
func (bs *blockState) applyClosure(mc *ssa.MakeClosure, args []Val, ins ssa.Instruction, rt types.Type, recovered *Val) Val {
	e := bs.e
	fn := mc.Fn.(*ssa.Function)
	key := funcKey(fn)
	spec := e.W.Specs.Funcs[key]
	if spec == nil {
		unsupp("closure %s has no contract", key)
	}
	extra := map[string]lvalueOrVal{}
	for i, fv := range fn.FreeVars {
		b := mc.Bindings[i]
		lv := bs.lval(b)
		extra[fv.Name()] = lvalueOrVal{lv: &lv, writes: closureWrites(fn, fv)}
	}
	if recovered != nil {
		extra["recovered"] = lvalueOrVal{v: recovered}
	}
	return bs.applyContractX(spec, key, args, ins, rt, extra)
}

type lvalueOrVal struct {
	lv     *lvalue
	v      *Val
	writes bool
}

// ---------- invoke (interface method calls) ----------

func (bs *blockState) invoke(x *ssa.Call) {
	var rt types.Type
	if x.Type() != nil && !isEmptyTuple(x.Type()) {
		rt = x.Type()
	}
	res := bs.invokeCommon(&x.Call, x, rt)
	if rt != nil {
		bs.e.regs[x] = res
	}
}

// invokeCommon applies the contract of an interface method (also used for deferred interface calls,
// whose results are discarded).
func (bs *blockState) invokeCommon(c *ssa.CallCommon, x ssa.Instruction, rt types.Type) Val {
	e := bs.e
	recvT := c.Value.Type()
	var key string
	if n, ok := recvT.(*types.Named); ok {
		pkg := ""
		if n.Obj().Pkg() != nil {
			pkg = n.Obj().Pkg().Name() + "."
		}
		key = pkg + n.Obj().Name() + "." + c.Method.Name()
	} else {
		key = sanitize(recvT.String()) + "." + c.Method.Name()
	}
	spec := e.W.Specs.Funcs[key]
	if spec == nil {
		unsupp("interface method call %s: no contract", key)
	}
	recv := bs.val(c.Value)
	bs.assertG(fmt.Sprintf("nil.%d", e.ordinal("nil")), "nil", not(eq(recv.C[0], "0")), "method call on nil interface", x)
	args := []Val{recv}
	for _, a := range c.Args {
		args = append(args, bs.val(a))
	}
	return bs.applyContract(spec, key, args, x, rt)
}

// ---------- defer / recover ----------

func (bs *blockState) deferInstr(x *ssa.Defer) {
	e := bs.e
	idx := len(e.defers)
	for i, d := range e.defers {
		if d == x {
			idx = i
		}
	}
	if idx == len(e.defers) {
		e.defers = append(e.defers, x)
	}
	k := fmt.Sprintf("defer:%d", idx)
	e.sorts[k] = SBool
	bs.st.m[k] = "true"
}

func (e *Enc) recovers(fn *ssa.Function) bool {
	for _, b := range fn.Blocks {
		for _, ins := range b.Instrs {
			if c, ok := ins.(*ssa.Call); ok {
				if bi, ok := c.Call.Value.(*ssa.Builtin); ok && bi.Name() == "recover" {
					return true
				}
			}
		}
	}
	return false
}

// runDeferred executes the registered deferred calls in LIFO order. pv == nil: normal return.
// Returns whether the panic (if any) was recovered.
func (bs *blockState) runDeferred(ins ssa.Instruction, pv *Val) (recovered bool) {
	e := bs.e
	for i := len(e.defers) - 1; i >= 0; i-- {
		d := e.defers[i]
		k := fmt.Sprintf("defer:%d", i)
		flag, ok := bs.st.m[k]
		if !ok || flag == "false" {
			continue
		}
		if flag != "true" {
			unsupp("conditionally registered defer")
		}
		bs.st.m[k] = "false"
		c := d.Call
		var args []Val
		for _, a := range c.Args {
			args = append(args, bs.val(a))
		}
		var rec *Val
		nilI := zeroVal(types.NewInterfaceType(nil, nil))
		if c.IsInvoke() {
			// deferred interface method call: the contract of the interface method, results discarded
			cc := c
			bs.invokeCommon(&cc, ins, nil)
			if bs.dead {
				return
			}
			continue
		}
		switch f := c.Value.(type) {
		case *ssa.MakeClosure:
			fn := f.Fn.(*ssa.Function)
			if e.recovers(fn) {
				if pv != nil && !recovered {
					rec = pv
					recovered = true
				} else {
					rec = &nilI
				}
			}
			bs.applyClosure(f, args, ins, nil, rec)
		case *ssa.Function:
			if c.IsInvoke() {
				unsupp("deferred interface call")
			}
			e.curDefer = d
			handled := bs.monCall(f, c.Args, ins)
			e.curDefer = nil
			if handled {
				break
			}
			bs.callStatic(f, args, ins, nil)
		default:
			if c.IsInvoke() {
				unsupp("deferred interface call")
			}
			unsupp("deferred call of function value")
		}
		if bs.dead {
			return
		}
	}
	return
}

func (bs *blockState) runDefers(x *ssa.RunDefers) {
	if len(bs.e.defers) == 0 {
		return
	}
	bs.runDeferred(x, nil)
}

// raiseWithDefers: a panic inside a function that has deferred calls.
func (bs *blockState) raiseWithDefers(pv Val, why string, ins ssa.Instruction) {
	e := bs.e
	if e.inRaise {
		unsupp("nested panic handling")
	}
	e.inRaise = true
	defer func() { e.inRaise = false }()
	rec := bs.runDeferred(ins, &pv)
	if bs.dead {
		return
	}
	if rec {
		// execution resumes at the recover block: the function returns its named results
		if e.fn.Recover != nil {
			e.addEdgeRaw(e.fn.Recover, bs.g, bs.st, bs.b)
			return
		}
		var rets []Val
		res := e.fn.Signature.Results()
		for i := 0; i < res.Len(); i++ {
			rets = append(rets, zeroVal(res.At(i).Type()))
		}
		e.exits = append(e.exits, edge{guard: bs.g, st: bs.st.clone(), rets: rets, from: bs.b})
		return
	}
	if e.spec == nil || !e.spec.MayPanic {
		bs.assertG(fmt.Sprintf("nopanic.%d", e.ordinal("nopanic")), "xpost", "false", why+" reachable but contract has no ensures_on_panic", ins)
	} else {
		e.panics = append(e.panics, edge{guard: bs.g, st: bs.st.clone(), pv: pv, from: bs.b})
	}
}

func (e *Enc) addEdgeRaw(to *ssa.BasicBlock, guard string, st *State, from *ssa.BasicBlock) {
	e.inEdges[to] = append(e.inEdges[to], edge{guard: guard, st: st.clone(), from: from})
	e.lateBlocks[to] = true
}

func (bs *blockState) recoverBuiltin(x *ssa.Call) {
	e := bs.e
	v, ok := e.paramVals["recovered"]
	if !ok {
		unsupp("recover outside a deferred closure under contract")
	}
	e.regs[x] = Val{x.Type(), v.C}
}

// ---------- go statements, channels ----------

func (bs *blockState) goInstr(x *ssa.Go) {
	// the spawned function is verified on its own as a thread entry; the spawn has no
	// sequential effect. Its precondition must hold here.
	e := bs.e
	c := x.Call
	if f, ok := c.Value.(*ssa.Function); ok && !c.IsInvoke() {
		spec := e.W.Specs.Funcs[funcKey(f)]
		if spec == nil {
			unsupp("go %s: no contract", funcKey(f))
		}
		vars := map[string]Val{}
		for i, p := range spec.Params {
			if i < len(c.Args) {
				vars[p.Name] = bs.val(c.Args[i])
			}
		}
		pre := &Ctx{E: e, Vars: vars, St: bs.st, where: e.key + " go " + f.Name()}
		for i, r := range spec.Requires {
			bs.assertG(fmt.Sprintf("go.%s.pre.%s", f.Name(), clauseName(r, i)), "pre", pre.boolT(r.Expr), r.Src, x)
		}
		return
	}
	unsupp("go statement with dynamic callee")
}

// Channel operations (DESIGN 3.6). A channel is a reference. A receive, send or select is a point
// where the goroutine may block and other goroutines run; what it returns is arbitrary unless a
// contract says more: `callsite recv#k <key>` / `callsite send#k <key>` in the function's contract,
// or the global contracts builtin.recv / builtin.send when declared.
func (bs *blockState) recv(x *ssa.UnOp) {
	bs.e.regs[x] = bs.chanOp("recv", []Val{bs.val(x.X)}, x, x.Type())
}

// chanOrd numbers the receive / send operations of the function in block order (1-based).
func (e *Enc) chanOrd(op string, ins ssa.Instruction) int {
	n := 0
	for _, b := range e.fn.Blocks {
		for _, i := range b.Instrs {
			switch x := i.(type) {
			case *ssa.UnOp:
				if x.Op == token.ARROW && op == "recv" {
					n++
				}
			case *ssa.Send:
				if op == "send" {
					n++
				}
			}
			if i == ins {
				return n
			}
		}
	}
	return 0
}

func (e *Enc) chanSpec(op string, ins ssa.Instruction) *FuncSpec {
	if e.spec != nil {
		if alt, ok := e.spec.CallSites[fmt.Sprintf("%s#%d", op, e.chanOrd(op, ins))]; ok {
			spec := e.W.Specs.Funcs[alt]
			if spec == nil {
				panic(contractMismatch{"callsite " + op + ": unknown contract " + alt})
			}
			return spec
		}
	}
	return e.W.Specs.Funcs["builtin."+op]
}

func (bs *blockState) chanOp(op string, args []Val, ins ssa.Instruction, resT types.Type) Val {
	e := bs.e
	if spec := e.chanSpec(op, ins); spec != nil {
		return bs.applyContractX(spec, "builtin."+op, args, ins, resT, nil)
	}
	if resT == nil {
		return Val{}
	}
	v := e.freshVal(op, resT)
	bs.assumeG(e.typeFacts(v))
	bs.assumeG(e.allocatedFacts(bs.st, v))
	return v
}

// select: the chosen case is arbitrary among the cases (or -1 for a select with default); every
// received value is arbitrary. `ghost select k after ::` statements see arg_index.
func (bs *blockState) selectInstr(x *ssa.Select) {
	e := bs.e
	e.callOrd["select"]++
	tup := x.Type().(*types.Tuple)
	// `callsite select#k <key>`: an (assumed) contract over the select's outcome
	// (index int, recvOk bool, one value per receive case)
	if e.spec != nil {
		if alt, ok := e.spec.CallSites[fmt.Sprintf("select#%d", e.callOrd["select"])]; ok {
			spec := e.W.Specs.Funcs[alt]
			if spec == nil {
				panic(contractMismatch{"callsite select: unknown contract " + alt})
			}
			if spec.Trusted {
				e.usedTrusted[spec.Header] = true
			}
			bs.havocModifies(spec, map[string]Val{}, x)
			v := e.freshVal("select", tup)
			bs.assumeG(e.typeFacts(v))
			bs.assumeG(e.allocatedFacts(bs.st, v))
			lo := "0"
			if !x.Blocking {
				lo = "(- 1)"
			}
			bs.assumeG(and(app("<=", lo, v.C[0]), app("<", v.C[0], fmt.Sprint(len(x.States)))))
			if len(spec.Params) != tup.Len() {
				panic(contractMismatch{fmt.Sprintf("select contract %s has %d params, the select yields %d values", alt, len(spec.Params), tup.Len())})
			}
			vars := map[string]Val{}
			off := 0
			for i := 0; i < tup.Len(); i++ {
				n := len(flatten(tup.At(i).Type()))
				vars[spec.Params[i].Name] = Val{tup.At(i).Type(), v.C[off : off+n]}
				off += n
			}
			c := &Ctx{E: e, Vars: vars, St: bs.st, where: e.key + " select ensures"}
			for _, en := range spec.Ensures {
				bs.assumeG(c.boolT(en.Expr))
			}
			e.regs[x] = v
			bs.ghostAt(fmt.Sprintf("select %d after", e.callOrd["select"]), x, map[string]Val{"index": {tInt, []string{v.C[0]}}})
			return
		}
	}
	v := e.freshVal("select", tup)
	bs.assumeG(e.typeFacts(v))
	bs.assumeG(e.allocatedFacts(bs.st, v))
	lo := "0"
	if !x.Blocking {
		lo = "(- 1)"
	}
	bs.assumeG(and(app("<=", lo, v.C[0]), app("<", v.C[0], fmt.Sprint(len(x.States)))))
	e.regs[x] = v
	bs.ghostAt(fmt.Sprintf("select %d after", e.callOrd["select"]), x, map[string]Val{"index": {tInt, []string{v.C[0]}}})
}

// ---------- varargs arrays ----------

func isArrayPtr(t types.Type) (*types.Array, bool) {
	p, ok := t.Underlying().(*types.Pointer)
	if !ok {
		return nil, false
	}
	a, ok := p.Elem().Underlying().(*types.Array)
	return a, ok
}

// strkey axioms: literal keys are pairwise distinct from / equal to other keys by content.
func (e *Enc) strKeyAxioms() string {
	var b strings.Builder
	if len(e.strKeys) == 0 {
		return ""
	}
	seen := map[string]bool{}
	var ks []Val
	for _, k := range e.strKeys {
		id := strings.Join(k.C, " ")
		if !seen[id] {
			seen[id] = true
			ks = append(ks, k)
		}
	}
	sort.Slice(ks, func(i, j int) bool { return strings.Join(ks[i].C, " ") < strings.Join(ks[j].C, " ") })
	if len(ks) > 12 {
		ks = ks[:12]
	}
	for i := range ks {
		for j := i + 1; j < len(ks); j++ {
			li, oki := constStr(ks[i])
			lj, okj := constStr(ks[j])
			a := app("strkey", ks[i].C...)
			c := app("strkey", ks[j].C...)
			switch {
			case oki && okj:
				if li == lj {
					fmt.Fprintf(&b, "(assert (= %s %s))\n", a, c)
				} else {
					fmt.Fprintf(&b, "(assert (not (= %s %s)))\n", a, c)
				}
			case oki:
				fmt.Fprintf(&b, "(assert (= (= %s %s) %s))\n", a, c, strEqLit(ks[j], li))
			case okj:
				fmt.Fprintf(&b, "(assert (= (= %s %s) %s))\n", a, c, strEqLit(ks[i], lj))
			default:
				if e.spec != nil && e.spec.StrKeysPairwise {
					// two computed keys: equal identities iff equal contents
					fmt.Fprintf(&b, "(assert (= (= %s %s) %s))\n", a, c, strEq(ks[i], ks[j]))
				}
			}
		}
	}
	return b.String()
}

// constStr recognises a string literal value built by strLit.
func constStr(v Val) (string, bool) {
	if v.C[1] != "0" {
		return "", false
	}
	a := v.C[0]
	var bytes []byte
	for a != "strk" {
		// (store X i c)
		if !strings.HasPrefix(a, "(store ") || !strings.HasSuffix(a, ")") {
			return "", false
		}
		inner := a[7 : len(a)-1]
		j := strings.LastIndex(inner, " ")
		c := inner[j+1:]
		inner = inner[:j]
		j = strings.LastIndex(inner, " ")
		a = inner[:j]
		var ci int
		fmt.Sscan(c, &ci)
		bytes = append([]byte{byte(ci)}, bytes...)
	}
	return string(bytes), fmt.Sprint(len(bytes)) == v.C[2]
}

var _ = constant.MakeBool

// typeByName resolves "pkg.Type" / "*pkg.Type" / basic type names against the loaded program.
func (e *Enc) typeByName(name string) types.Type {
	if strings.HasPrefix(name, "*[]") {
		return types.NewPointer(types.NewSlice(e.typeByName(name[3:])))
	}
	if strings.HasPrefix(name, "[]") {
		return types.NewSlice(e.typeByName(name[2:]))
	}
	if strings.HasPrefix(name, "map[") {
		depth := 0
		for i := 3; i < len(name); i++ {
			switch name[i] {
			case '[':
				depth++
			case ']':
				depth--
				if depth == 0 {
					return types.NewMap(e.typeByName(name[4:i]), e.typeByName(name[i+1:]))
				}
			}
		}
	}
	ptr := strings.HasPrefix(name, "*")
	n := strings.TrimPrefix(name, "*")
	var t types.Type
	switch n {
	case "interface{}":
		t = types.NewInterfaceType(nil, nil)
	case "string":
		t = tString
	case "int":
		t = tInt
	case "bool":
		t = tBool
	case "error":
		t = types.Universe.Lookup("error").Type()
	default:
		i := strings.Index(n, ".")
		if i < 0 {
			panic(contractMismatch{"type name needs a package: " + name})
		}
		for _, p := range e.W.Prog.AllPackages() {
			if p.Pkg.Name() == n[:i] {
				if o := p.Pkg.Scope().Lookup(n[i+1:]); o != nil {
					t = o.Type()
				}
			}
		}
		if t == nil {
			panic(contractMismatch{"unknown type " + name})
		}
	}
	if ptr {
		t = types.NewPointer(t)
	}
	return t
}

func (e *Enc) tagByName(name string) string { return typeTag(e.typeByName(name)) }

// globalByName: package-level variables of the function's package, by name.
func (e *Enc) globalByName(c *Ctx, name string) (Val, bool) {
	if e.fn == nil || c.St == nil {
		return Val{}, false
	}
	pkg := e.fn.Pkg
	if pkg == nil && e.fn.Parent() != nil {
		pkg = e.fn.Parent().Pkg
	}
	if pkg == nil {
		return Val{}, false
	}
	if g, ok := pkg.Members[name].(*ssa.Global); ok {
		return e.loadGlobal(c.St, g), true
	}
	return Val{}, false
}

// ---------- ghost variables ----------

func ghostKey(name string, j int) string { return fmt.Sprintf("g:ghost.%s:%d", name, j) }

func (e *Enc) ghostGet(st *State, name, gt string) Val {
	t := specType(gt)
	v := Val{T: t}
	for j, so := range flatten(t) {
		v.C = append(v.C, e.heapKey(st, ghostKey(name, j), so))
	}
	return v
}

// havocObject forgets the fields of the struct object at ref (and of struct values nested in it).
func (bs *blockState) havocObject(t types.Type, ref string) {
	e := bs.e
	if lv, ok := e.fieldPtrs[ref]; ok {
		v := e.freshVal("hv.field", t)
		e.assume(bs.g, e.typeFacts(v))
		e.storeField(bs.st, lv.stT, lv.fidx, lv.obj, v)
		return
	}
	st, ok := t.Underlying().(*types.Struct)
	if !ok {
		for j, so := range flatten(t) {
			k := ptrKey(t, j)
			h := e.heapKey(bs.st, k, "(Array Int "+so+")")
			nh := e.fresh("hv."+k, "(Array Int "+so+")")
			e.def(eq(nh, app("store", h, ref, e.fresh("hvv", so))))
			bs.st.m[k] = nh
		}
		return
	}
	for i := 0; i < st.NumFields(); i++ {
		ft := st.Field(i).Type()
		if _, nested := ft.Underlying().(*types.Struct); nested {
			bs.havocObject(ft, subRef(ref, i))
			continue
		}
		v := e.freshVal("hv."+st.Field(i).Name(), ft)
		e.assume(bs.g, e.typeFacts(v))
		e.storeFieldFlat(bs.st, t, i, ref, v)
	}
}
