package main

// Parts of the subset added after the core: maps, interfaces, closures, defer/recover, goroutines.

import (
	"golang.org/x/tools/go/ssa"
)

func (bs *blockState) mapLookup(x *ssa.Lookup)          { unsupp("map lookup") }
func (bs *blockState) rangeMap(x *ssa.Range)             { unsupp("range over map") }
func (bs *blockState) nextMap(x *ssa.Next)               { unsupp("map iteration") }
func (bs *blockState) makeInterface(x *ssa.MakeInterface) { unsupp("MakeInterface") }
func (bs *blockState) typeAssert(x *ssa.TypeAssert)       { unsupp("TypeAssert") }
func (bs *blockState) makeMap(x *ssa.MakeMap)             { unsupp("MakeMap") }
func (bs *blockState) mapUpdate(x *ssa.MapUpdate)         { unsupp("MapUpdate") }
func (bs *blockState) mapDelete(x *ssa.Call)              { unsupp("delete") }
func (bs *blockState) makeClosure(x *ssa.MakeClosure)     { unsupp("MakeClosure") }
func (bs *blockState) deferInstr(x *ssa.Defer)            { unsupp("defer") }
func (bs *blockState) goInstr(x *ssa.Go)                  { unsupp("go statement") }
func (bs *blockState) runDefers(x *ssa.RunDefers) {
	if len(bs.e.defers) > 0 {
		unsupp("rundefers with pending defers")
	}
}
func (bs *blockState) raiseWithDefers(pv Val, why string, ins ssa.Instruction) { unsupp("panic with defers") }
func (bs *blockState) recv(x *ssa.UnOp)                                        { unsupp("channel receive") }
func (bs *blockState) recoverBuiltin(x *ssa.Call)                              { unsupp("recover") }
func (bs *blockState) invoke(x *ssa.Call)                                      { unsupp("interface method call") }
func (bs *blockState) callClosure(x *ssa.Call, f *ssa.MakeClosure)             { unsupp("closure call") }
func (bs *blockState) callFuncValue(x *ssa.Call)                               { unsupp("call of function value") }
