package main

import (
	"flag"
	"fmt"
	"os"
	"path/filepath"
	"runtime/debug"
	"sort"
	"strings"
	"time"

	"golang.org/x/tools/go/packages"
	"golang.org/x/tools/go/ssa"
	"golang.org/x/tools/go/ssa/ssautil"
)

var repoPkgs = []string{".", "./store", "./store/badgerstore", "./store/mockstore", "./resprot"}

func loadWorld(repo string) *World {
	cfg := &packages.Config{Mode: packages.LoadAllSyntax, Dir: repo, BuildFlags: []string{"-tags=verif"},
		Env: append(os.Environ(), "GOFLAGS=-mod=mod", "GOPROXY=off", "GOSUMDB=off", "GOTOOLCHAIN=local")}
	pkgs, err := packages.Load(cfg, repoPkgs...)
	if err != nil {
		fmt.Fprintln(os.Stderr, "ENGINE-ERROR: cannot load packages:", err)
		os.Exit(2)
	}
	nerr := 0
	packages.Visit(pkgs, nil, func(p *packages.Package) {
		for _, e := range p.Errors {
			if strings.HasPrefix(p.PkgPath, "github.com/jirenius/go-res") {
				fmt.Fprintln(os.Stderr, "load error:", e)
				nerr++
			}
		}
	})
	if nerr > 0 {
		fmt.Fprintln(os.Stderr, "ENGINE-ERROR: repository does not type-check")
		os.Exit(2)
	}
	prog, _ := ssautil.AllPackages(pkgs, ssa.NaiveForm|ssa.GlobalDebug)
	prog.Build()
	w := &World{Prog: prog, Fset: prog.Fset, FnByKey: map[string]*ssa.Function{}}
	for fn := range ssautil.AllFunctions(prog) {
		if fn.Pkg == nil && fn.Parent() == nil {
			continue
		}
		root := fn
		for root.Parent() != nil {
			root = root.Parent()
		}
		if root.Pkg == nil || !strings.HasPrefix(root.Pkg.Pkg.Path(), "github.com/jirenius/go-res") {
			continue
		}
		if fn.Synthetic != "" {
			continue
		}
		w.FnByKey[funcKey(fn)] = fn
	}
	// package-level variables that are only assigned by their initialiser are constants
	w.MutableGlobals = map[*ssa.Global]bool{}
	for fn := range ssautil.AllFunctions(prog) {
		for _, b := range fn.Blocks {
			for _, ins := range b.Instrs {
				for _, op := range ins.Operands(nil) {
					g, ok := (*op).(*ssa.Global)
					if !ok {
						continue
					}
					switch x := ins.(type) {
					case *ssa.UnOp:
						continue // load
					case *ssa.Store:
						if x.Addr == ssa.Value(g) && fn.Name() == "init" && fn.Pkg == g.Pkg {
							continue
						}
					}
					w.MutableGlobals[g] = true
				}
			}
		}
	}
	// contract files
	var files []string
	for _, p := range repoPkgs {
		f := filepath.Join(repo, p, "zz_contracts_verif.go")
		if _, err := os.Stat(f); err == nil {
			files = append(files, f)
		}
	}
	extra, _ := filepath.Glob("/verif/specs/deps/*.go")
	sort.Strings(extra)
	files = append(files, extra...)
	w.Specs = LoadSpecs(files)
	return w
}

type FuncReport struct {
	Key     string
	Status  string // ok | outside_subset | contract_does_not_bind | missing
	Reason  string
	Obs     []*Obligation
	NLoops  int
	Trusted []string
	Callees []string
	File    string
	Lemmas  []string
}

// verifyFunc encodes one function and returns its obligations (unsolved).
func verifyFunc(w *World, key string) (rep *FuncReport) {
	return verifyFuncHook(w, key, nil)
}

func verifyFuncHook(w *World, key string, hook func(*Enc)) (rep *FuncReport) {
	rep = &FuncReport{Key: key}
	fn := w.FnByKey[key]
	spec := w.Specs.Funcs[key]
	if fn == nil {
		rep.Status = "missing"
		rep.Reason = "function not found in /repo"
		return
	}
	if spec == nil {
		rep.Status = "missing"
		rep.Reason = "no contract"
		return
	}
	p := w.Fset.Position(fn.Pos())
	rep.File = fmt.Sprintf("%s:%d", shortFile(p.Filename), p.Line)
	e := NewEnc(w, fn, key, spec)
	if hook != nil {
		hook(e)
	}
	defer func() {
		if r := recover(); r != nil {
			switch x := r.(type) {
			case unsupported:
				rep.Status = "outside_subset"
				rep.Reason = x.msg
			case contractMismatch:
				rep.Status = "contract_does_not_bind"
				rep.Reason = x.msg
			case string:
				if strings.Contains(x, "contract expression error") {
					rep.Status = "contract_does_not_bind"
					rep.Reason = x
					return
				}
				panic(r)
			default:
				fmt.Fprintf(os.Stderr, "ENGINE-ERROR in %s: %v\n%s\n", key, r, debug.Stack())
				os.Exit(2)
			}
		}
	}()
	e.Encode()
	rep.Obs = e.queries("")
	rep.NLoops = len(e.loops)
	for t := range e.usedTrusted {
		rep.Trusted = append(rep.Trusted, t)
	}
	sort.Strings(rep.Trusted)
	for c := range e.usedCallees {
		rep.Callees = append(rep.Callees, c)
	}
	sort.Strings(rep.Callees)
	for l := range e.usedLemmas {
		rep.Lemmas = append(rep.Lemmas, l)
	}
	sort.Strings(rep.Lemmas)
	rep.Status = "ok"
	return
}

func main() {
	if len(os.Args) > 1 && os.Args[1] == "check" {
		checkMain(os.Args[2:])
		return
	}
	fns := flag.String("fn", "", "comma separated function keys")
	secs := flag.Int("t", 10, "solver timeout")
	dump := flag.String("dump", "", "dump SSA of function key")
	keep := flag.String("keep", "", "directory to keep SMT files")
	verbose := flag.Bool("v", false, "verbose")
	flag.Parse()
	t0 := time.Now()
	// debug mode (-fn/-dump) may look at a scratch copy of the repository; `check` always reads /repo
	dbgRepo := os.Getenv("GOVC_DEBUG_REPO")
	if dbgRepo == "" {
		dbgRepo = "/repo"
	}
	w := loadWorld(dbgRepo)
	fmt.Fprintf(os.Stderr, "loaded in %.1fs, %d functions, %d contracts\n", time.Since(t0).Seconds(), len(w.FnByKey), len(w.Specs.Funcs))
	if *dump != "" {
		if fn := w.FnByKey[*dump]; fn != nil {
			fn.WriteTo(os.Stdout)
		} else {
			for k := range w.FnByKey {
				if strings.Contains(k, *dump) {
					fmt.Println(k)
				}
			}
		}
		return
	}
	dir := *keep
	if dir == "" {
		dir, _ = os.MkdirTemp("", "govc")
		defer os.RemoveAll(dir)
	} else {
		os.MkdirAll(dir, 0o755)
	}
	fail := 0
	for _, key := range strings.Split(*fns, ",") {
		rep := verifyFunc(w, key)
		fmt.Printf("== %s: %s %s (%d obligations)\n", key, rep.Status, rep.Reason, len(rep.Obs))
		rep.Obs = append(rep.Obs, proveLemmas(w, rep.Lemmas)...)
		solveAll(rep.Obs, dir, *secs, false, 8)
		for _, o := range rep.Obs {
			ok := o.Status == "unsat"
			if o.Canary {
				ok = o.Status != "unsat" || strings.Contains(o.Name, "#canary.before.") || inDeadRegion(o, rep.Obs)
			}
			if !ok {
				fail++
			}
			if !ok || *verbose {
				fmt.Printf("  %-6s %-8s %5.2fs %s   [%s] %s @%s\n", map[bool]string{true: "ok", false: "FAIL"}[ok], o.Status, o.Secs, o.Name, o.Backend, o.Src, o.Where)
				if !ok && o.Status == "sat" {
					fmt.Printf("         model: %v\n", fmtModel(o.Model))
				}
			}
		}
	}
	fmt.Printf("failures: %d, wall %.1fs\n", fail, time.Since(t0).Seconds())
}

func fmtModel(m map[string]string) string {
	var ks []string
	for k := range m {
		if !strings.HasPrefix(k, "(select") {
			ks = append(ks, k)
		}
	}
	sort.Strings(ks)
	var out []string
	for _, k := range ks {
		out = append(out, k+"="+m[k])
	}
	return strings.Join(out, " ")
}
