package main

// Monitor rule (DESIGN.md 3.6): Lock havocs the protected state and assumes invariant and rely;
// Unlock asserts invariant and guarantee. A sequential VC generator thereby covers every
// interleaving at lock granularity, for any number of threads.

import (
	"fmt"
	"go/types"
	"strings"

	"golang.org/x/tools/go/ssa"
)

type monState struct {
	mon   *Monitor
	owner string // ref of the object holding the lock, fixed at first use
	rel   *State // state at my last release (or function entry)
	acq   *State // state at my last acquisition
	nLock int
	nUnl  int
}

// monitorFor finds the monitor whose lock (or cond) field is addressed by v.
func (e *Enc) monitorFor(v ssa.Value) (*Monitor, string, bool, bool) {
	fa, ok := v.(*ssa.FieldAddr)
	if !ok {
		return nil, "", false, false
	}
	pt := fa.X.Type().Underlying().(*types.Pointer).Elem()
	st := pt.Underlying().(*types.Struct)
	name := typeKey(pt) + "." + st.Field(fa.Field).Name()
	for _, m := range e.W.Specs.Monitors {
		if m.Lock == name {
			return m, "", true, false
		}
		if m.Cond == name {
			return m, "", false, true
		}
	}
	return nil, "", false, false
}

func (e *Enc) monKeys(m *Monitor) [][2]string {
	var out [][2]string
	for _, p := range m.Protects {
		if strings.HasPrefix(p, "map:") {
			out = append(out, e.resolveMapItem(strings.TrimPrefix(p, "map:"))...)
			continue
		}
		out = append(out, e.resolveHeapItem(p)...)
	}
	for _, g := range m.Ghost {
		gt, ok := e.W.Specs.GhostVars[g]
		if !ok {
			panic(contractMismatch{"monitor owns unknown ghost variable " + g})
		}
		for j, so := range flatten(specType(gt)) {
			out = append(out, [2]string{ghostKey(g, j), so})
		}
	}
	return out
}

// resolveMapItem: the has/val/card memory of a map-typed field pkg.Type.field.
func (e *Enc) resolveMapItem(m string) [][2]string {
	if strings.HasPrefix(m, "map[") {
		// every map of this type
		mt := e.typeByName(m).(*types.Map)
		out := [][2]string{{mapHasKey(mt), "(Array Int (Array Int Bool))"}, {"map.card", "(Array Int Int)"}}
		for j, so := range flatten(mt.Elem()) {
			out = append(out, [2]string{mapValKey(mt, j), "(Array Int (Array Int " + so + "))"})
		}
		return out
	}
	parts := strings.Split(m, ".")
	for _, p := range e.W.Prog.AllPackages() {
		if len(parts) != 3 || p.Pkg.Name() != parts[0] {
			continue
		}
		if tn, ok := p.Pkg.Scope().Lookup(parts[1]).(*types.TypeName); ok {
			if st, ok := tn.Type().Underlying().(*types.Struct); ok {
				for i := 0; i < st.NumFields(); i++ {
					if st.Field(i).Name() == parts[2] {
						if mt, ok := st.Field(i).Type().Underlying().(*types.Map); ok {
							out := [][2]string{{mapHasKey(mt), "(Array Int (Array Int Bool))"}, {"map.card", "(Array Int Int)"}}
							for j, so := range flatten(mt.Elem()) {
								out = append(out, [2]string{mapValKey(mt, j), "(Array Int (Array Int " + so + "))"})
							}
							return out
						}
					}
				}
			}
		}
	}
	panic(contractMismatch{"cannot resolve map item " + m})
}

func (bs *blockState) held() string {
	h, ok := bs.st.m["mon:held"]
	if !ok {
		return "false"
	}
	return h
}

func (e *Enc) monInit(st *State) {
	e.sorts["mon:held"] = SBool
	st.m["mon:held"] = "false"
	if e.spec != nil && e.spec.Holds != "" {
		st.m["mon:held"] = "true"
	}
	if _, ok := e.sorts["decl:me"]; !ok {
		e.sorts["decl:me"] = SInt
		e.decl("me", SInt)
		e.def("(> me 0)")
	}
}

func (e *Enc) monCtx(st *State, owner string, ownerT types.Type, where string) *Ctx {
	c := e.ctx(st, where)
	c.Vars["s"] = Val{ownerT, []string{owner}}
	c.Vars["t"] = ival("me")
	c.Vars["me"] = ival("me")
	return c
}

func (bs *blockState) monOwner(recv ssa.Value) (string, types.Type) {
	fa := recv.(*ssa.FieldAddr)
	v := bs.val(fa.X)
	if bs.e.monOwnerV == nil {
		vv := Val{fa.X.Type(), v.C}
		bs.e.monOwnerV = &vv
	}
	return v.C[0], fa.X.Type()
}

// lock: acquire the monitor.
func (bs *blockState) monLock(m *Monitor, recv ssa.Value, ins ssa.Instruction, viaWait bool) {
	e := bs.e
	owner, ot := bs.monOwner(recv)
	ms := e.mon
	if ms == nil {
		ms = &monState{mon: m, rel: e.entrySt}
		e.mon = ms
	}
	ms.nLock = e.monOrdinal(ins, true)
	site := fmt.Sprintf("lock%d", ms.nLock)
	if viaWait {
		site += "w"
	}
	if !viaWait {
		bs.assertG(site+".notheld", "mon", not(bs.held()), "Lock while the lock is already held by this thread (self-deadlock)", ins)
	}
	rel := ms.rel
	if r, ok := e.monRel[bs.st.m["mon:rel"]]; ok {
		rel = r
	}
	// other threads ran: everything the monitor protects may have changed
	for _, ks := range e.monKeys(m) {
		e.heapKey(bs.st, ks[0], ks[1])
		bs.st.m[ks[0]] = e.fresh("mon."+ks[0], ks[1])
	}
	bs.st.m["mon:held"] = "true"
	c := e.monCtx(bs.st, owner, ot, site+" invariant")
	for _, inv := range m.Inv {
		bs.assumeG(c.boolT(inv.Expr))
	}
	rc := e.monCtx(bs.st, owner, ot, site+" rely")
	rc.Old = e.monCtx(rel, owner, ot, site+" rely(old)")
	for _, r := range m.Rely {
		bs.assumeG(rc.boolT(r.Expr))
	}
	// remember the state at acquisition for the guarantee check
	e.n++
	id := fmt.Sprintf("acq%d", e.n)
	e.monAcq[id] = bs.st.clone()
	e.sorts["mon:acq"] = "tag"
	bs.st.m["mon:acq"] = id
	bs.ghostAt(fmt.Sprintf("lock %d after", ms.nLock), ins, nil)
}

// unlock: release the monitor: invariant and guarantee are proof obligations.
func (bs *blockState) monUnlock(m *Monitor, recv ssa.Value, ins ssa.Instruction, viaWait bool) {
	e := bs.e
	owner, ot := bs.monOwner(recv)
	ms := e.mon
	if ms == nil {
		ms = &monState{mon: m, rel: e.entrySt}
		e.mon = ms
	}
	ms.nUnl = e.monOrdinal(ins, false)
	site := fmt.Sprintf("unlock%d", ms.nUnl)
	e.unlockSeen[site]++
	if e.unlockSeen[site] > 1 {
		site += fmt.Sprintf("~%d", e.unlockSeen[site])
	}
	bs.ghostAt(fmt.Sprintf("unlock %d before", ms.nUnl), ins, nil)
	bs.assertG(site+".held", "mon", bs.held(), "Unlock of a lock this thread does not hold", ins)
	c := e.monCtx(bs.st, owner, ot, site+" invariant")
	for i, inv := range m.Inv {
		bs.assertG(site+".inv."+clauseName(inv, i), "mon", c.boolT(inv.Expr), inv.Src, ins)
	}
	acq := e.entrySt
	if a, ok := e.monAcq[bs.st.m["mon:acq"]]; ok {
		acq = a
	}
	// guarantee: my critical section respects the rely of every other thread
	tv := e.freshName("tt")
	gc := e.monCtx(bs.st, owner, ot, site+" guarantee")
	gc.Vars["t"] = ival(tv)
	gc.Old = e.monCtx(acq, owner, ot, site+" guarantee(old)")
	gc.Old.Vars["t"] = ival(tv)
	for i, r := range m.Rely {
		body := gc.boolT(r.Expr)
		bs.assertG(site+".guar."+clauseName(r, i), "mon", fmt.Sprintf("(forall ((%s Int)) %s)", tv, imp(not(eq(tv, "me")), body)), "guarantee: "+r.Src, ins)
	}
	bs.st.m["mon:held"] = "false"
	e.n++
	id := fmt.Sprintf("rel%d", e.n)
	e.monRel[id] = bs.st.clone()
	e.sorts["mon:rel"] = "tag"
	bs.st.m["mon:rel"] = id
}

// monCall intercepts sync.Mutex / sync.Cond operations on a declared monitor.
func (bs *blockState) monCall(f *ssa.Function, args []ssa.Value, ins ssa.Instruction) bool {
	e := bs.e
	if f.Pkg == nil || f.Pkg.Pkg.Path() != "sync" || len(args) == 0 {
		return false
	}
	m, _, isLock, isCond := e.monitorFor(args[0])
	if m == nil {
		return false
	}
	recvT := f.Signature.Recv().Type().String()
	switch {
	case isLock && strings.HasSuffix(recvT, "sync.Mutex") && f.Name() == "Lock":
		bs.monLock(m, args[0], ins, false)
	case isLock && strings.HasSuffix(recvT, "sync.Mutex") && f.Name() == "Unlock":
		bs.monUnlock(m, args[0], ins, false)
	case isCond && f.Name() == "Wait":
		// Wait = Unlock; block; Lock  -- on the mutex of the same owner
		lockRecv := e.lockFieldOf(args[0], m)
		bs.monUnlockVia(m, lockRecv, ins)
		bs.monLockVia(m, lockRecv, ins)
	case isCond && (f.Name() == "Signal" || f.Name() == "Broadcast"):
		bs.ghostAt("signal", ins, nil)
	default:
		return false
	}
	return true
}

// lockFieldOf: Cond operations name the cond field; owner is the same object.
func (e *Enc) lockFieldOf(condRecv ssa.Value, m *Monitor) ssa.Value { return condRecv }

func (bs *blockState) monUnlockVia(m *Monitor, recv ssa.Value, ins ssa.Instruction) {
	bs.monUnlock(m, recv, ins, true)
}
func (bs *blockState) monLockVia(m *Monitor, recv ssa.Value, ins ssa.Instruction) {
	bs.monLock(m, recv, ins, true)
}

// monAccess: G0, the guard discipline: protected locations are only touched with the lock held.
func (bs *blockState) monAccess(keys []string, what string, ins ssa.Instruction) {
	e := bs.e
	if len(e.W.Specs.Monitors) == 0 {
		return
	}
	if e.spec != nil && e.spec.Thread == "init" {
		// `thread init`: the function initialises the monitor's state while no other thread uses it
		// (a stated assumption, listed in the evidence): the guard discipline does not apply
		return
	}
	for _, m := range e.W.Specs.Monitors {
		if e.protectedSet == nil {
			e.protectedSet = map[string]bool{}
			for _, mm := range e.W.Specs.Monitors {
				for _, p := range mm.Protects {
					if strings.HasPrefix(p, "map:") || strings.HasPrefix(p, "elems:") {
						continue
					}
					for _, ks := range e.resolveHeapItem(p) {
						e.protectedSet[ks[0]] = true
					}
				}
			}
		}
		_ = m
	}
	for _, k := range keys {
		if e.protectedSet[k] {
			bs.assertG(fmt.Sprintf("G0.%d", e.ordinal("G0")), "mon", bs.held(), "access to "+what+" (protected by the monitor) without holding the lock", ins)
			return
		}
	}
}

// monOrdinal numbers Lock / Unlock / Wait sites of a function in source order (stable under
// reordering of basic blocks). A deferred Unlock counts at the position of its defer statement.
func (e *Enc) monOrdinal(ins ssa.Instruction, lock bool) int {
	if e.monSites == nil {
		e.monSites = map[ssa.Instruction][2]int{}
		type site struct {
			ins  ssa.Instruction
			pos  int
			lock bool
			unl  bool
		}
		var sites []site
		for _, b := range e.fn.Blocks {
			for _, in := range b.Instrs {
				var cc *ssa.CallCommon
				switch x := in.(type) {
				case *ssa.Call:
					cc = &x.Call
				case *ssa.Defer:
					cc = &x.Call
				}
				if cc == nil {
					continue
				}
				f := cc.StaticCallee()
				if f == nil || f.Pkg == nil || f.Pkg.Pkg.Path() != "sync" || len(cc.Args) == 0 {
					continue
				}
				mm, _, isL, isC := e.monitorFor(cc.Args[0])
				if mm == nil {
					continue
				}
				s := site{ins: in, pos: int(in.Pos())}
				switch {
				case isL && f.Name() == "Lock":
					s.lock = true
				case isL && f.Name() == "Unlock":
					s.unl = true
				case isC && f.Name() == "Wait":
					s.lock, s.unl = true, true
				default:
					continue
				}
				sites = append(sites, s)
			}
		}
		for i := 0; i < len(sites); i++ {
			for j := i + 1; j < len(sites); j++ {
				if sites[j].pos < sites[i].pos {
					sites[i], sites[j] = sites[j], sites[i]
				}
			}
		}
		nl, nu := 0, 0
		for _, s := range sites {
			var o [2]int
			if s.lock {
				nl++
				o[0] = nl
			}
			if s.unl {
				nu++
				o[1] = nu
			}
			e.monSites[s.ins] = o
		}
	}
	// a deferred call is executed at RunDefers/panic: find its Defer instruction
	if o, ok := e.monSites[ins]; ok {
		if lock {
			return o[0]
		}
		return o[1]
	}
	if e.curDefer != nil {
		if o, ok := e.monSites[e.curDefer]; ok {
			if lock {
				return o[0]
			}
			return o[1]
		}
	}
	return 99
}

// monSegment closes the current held segment at a checkpoint (loop header, call of a function that
// keeps the lock, return of such a function): the guarantee must hold from the last acquisition or
// checkpoint to here. The rely relations are reflexive and transitive, so segment-wise guarantees
// compose to the guarantee of the whole critical section.
func (bs *blockState) monSegment(site string, ins ssa.Instruction) {
	e := bs.e
	if len(e.W.Specs.Monitors) == 0 || bs.held() == "false" {
		return
	}
	var m *Monitor
	for _, mm := range e.W.Specs.Monitors {
		m = mm
	}
	owner, ot, ok := e.monOwnerTerm(bs.st)
	if !ok {
		return
	}
	acq := e.entrySt
	if a, ok := e.monAcq[bs.st.m["mon:acq"]]; ok {
		acq = a
	}
	tv := e.freshName("tt")
	gc := e.monCtx(bs.st, owner, ot, site+" guarantee")
	gc.Vars["t"] = ival(tv)
	gc.Old = e.monCtx(acq, owner, ot, site+" guarantee(old)")
	gc.Old.Vars["t"] = ival(tv)
	for i, r := range m.Rely {
		body := gc.boolT(r.Expr)
		bs.assertG(site+".guar."+clauseName(r, i), "mon", imp(bs.held(), fmt.Sprintf("(forall ((%s Int)) %s)", tv, imp(not(eq(tv, "me")), body))), "guarantee: "+r.Src, ins)
	}
}

// monNewSegment starts a new segment at the current state.
func (bs *blockState) monNewSegment() {
	e := bs.e
	if len(e.W.Specs.Monitors) == 0 || bs.held() == "false" {
		return
	}
	e.n++
	id := fmt.Sprintf("acq%d", e.n)
	e.monAcq[id] = bs.st.clone()
	e.sorts["mon:acq"] = "tag"
	bs.st.m["mon:acq"] = id
}

// monOwnerTerm: the object whose lock this function works with (first Lock/Unlock receiver, or the
// receiver's service for functions that hold the lock throughout).
func (e *Enc) monOwnerTerm(st *State) (string, types.Type, bool) {
	if e.monOwnerV != nil {
		return e.monOwnerV.C[0], e.monOwnerV.T, true
	}
	return "", nil, false
}
