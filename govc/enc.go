package main

// Forward symbolic encoding of one SSA function into guarded SMT items.
// DESIGN.md section 4 (the block-guard variant of the passive-form VC).

import (
	"fmt"
	"go/token"
	"go/types"
	"sort"
	"strconv"
	"strings"

	"golang.org/x/tools/go/ssa"
)

type ItemKind int

const (
	IDecl ItemKind = iota
	IDef
	IAssume
	IAssert
)

type Item struct {
	Kind   ItemKind
	Guard  string
	Term   string
	Name   string
	Pos    token.Pos
	Canary bool   // reachability canary: expected NOT unsat
	Class  string // post | pre | inv | bounds | nil | ovf | ghost | xpost | dec | canary
	Src    string // contract clause or source snippet
	Lemmas []string
	Blk    *ssa.BasicBlock
}

// State maps state keys (cell components, heap maps, iterators, ghost) to SMT terms.
type State struct {
	m map[string]string
}

func (s *State) clone() *State {
	n := &State{m: make(map[string]string, len(s.m))}
	for k, v := range s.m {
		n.m[k] = v
	}
	return n
}

type edge struct {
	guard string
	st    *State
	from  *ssa.BasicBlock
	rets  []Val // for exit edges
	pv    Val   // for panic edges
}

type loopInfo struct {
	ord       int
	header    *ssa.BasicBlock
	blocks    map[*ssa.BasicBlock]bool
	entry     *State // state at loop entry (before havoc)
	head      *State // state after havoc
	gIn       string
	decH      string
	spec      *LoopSpec
	nback     int
	frameKeys []string
}

type World struct {
	Prog           *ssa.Program
	Specs          *Specs
	Fset           *token.FileSet
	FnByKey        map[string]*ssa.Function
	Opts           Options
	recCache       map[string]map[string]bool
	MutableGlobals map[*ssa.Global]bool
}

type Options struct {
	NoOverflow bool
}

type Enc struct {
	W             *World
	fn            *ssa.Function
	key           string
	spec          *FuncSpec
	items         []Item
	n             int
	sorts         map[string]string // state key -> sort
	cellT         map[*ssa.Alloc]types.Type
	cellName      map[string][]*ssa.Alloc
	regs          map[ssa.Value]Val
	addrs         map[ssa.Value]lvalue
	used          map[string]bool // spec functions used
	usedTrusted   map[string]bool
	usedCallees   map[string]bool // non-trusted contracts applied at call sites
	loops         map[*ssa.BasicBlock]*loopInfo
	inEdges       map[*ssa.BasicBlock][]edge
	exits         []edge
	panics        []edge
	entrySt       *State
	entryCtx      *Ctx
	counters      map[string]int
	iterStr       map[ssa.Value]Val
	strIds        []Val
	outside       []string
	curBlock      *ssa.BasicBlock
	defers        []*ssa.Defer
	litk          int
	closures      map[ssa.Value]*ssa.MakeClosure
	tupleOf       map[ssa.Value][]Val
	callOrd       map[string]int
	freeVars      map[*ssa.FreeVar]lvalue
	paramVals     map[string]Val
	xexit         []edge
	usedLemmas    map[string]bool
	implUsed      map[string]types.Type
	strKeys       []Val
	iterMap       map[ssa.Value]Val
	closureOf     map[string]*ssa.MakeClosure
	inRaise       bool
	lateBlocks    map[*ssa.BasicBlock]bool
	ghostUsed     map[int]bool
	privateCells  []*ssa.Alloc
	privateFVs    []*ssa.FreeVar
	dynType       map[string]types.Type
	fieldPtrs     map[string]lvalue
	mon           *monState
	monRel        map[string]*State
	monAcq        map[string]*State
	protectedSet  map[string]bool
	monSites      map[ssa.Instruction][2]int
	curDefer      *ssa.Defer
	unlockSeen    map[string]int
	monOwnerV     *Val
	sharedSet     map[string]bool
	roArrays      []roArray
	genMerge      map[string][]edge
	shadowParams  map[string]bool
	catMemo       map[string]Val
	frameCov      map[string]bool
	frameAll      bool
	alias         map[string]string
	loopPointKeys map[string][]string
	loopPointSort map[string]string
	frameRecv     *Val
	frameRecvT    types.Type
}

type lvalue struct {
	kind   string // cell | field | elem | ptr | global
	alloc  *ssa.Alloc
	lo, hi int        // component range within cell
	typ    types.Type // type of the location
	obj    string     // ref term (field/ptr) or backing array ref (elem)
	stT    types.Type // struct type for field
	fidx   int
	idx    string // element index (absolute)
	elemT  types.Type
	glob   *ssa.Global
}

func NewEnc(w *World, fn *ssa.Function, key string, spec *FuncSpec) *Enc {
	return &Enc{W: w, fn: fn, key: key, spec: spec, sorts: map[string]string{}, cellT: map[*ssa.Alloc]types.Type{},
		cellName: map[string][]*ssa.Alloc{}, regs: map[ssa.Value]Val{}, addrs: map[ssa.Value]lvalue{}, used: map[string]bool{},
		usedTrusted: map[string]bool{}, usedCallees: map[string]bool{}, loops: map[*ssa.BasicBlock]*loopInfo{}, inEdges: map[*ssa.BasicBlock][]edge{},
		counters: map[string]int{}, iterStr: map[ssa.Value]Val{}, closures: map[ssa.Value]*ssa.MakeClosure{},
		tupleOf: map[ssa.Value][]Val{}, callOrd: map[string]int{}, freeVars: map[*ssa.FreeVar]lvalue{}, paramVals: map[string]Val{}, usedLemmas: map[string]bool{}, implUsed: map[string]types.Type{}, iterMap: map[ssa.Value]Val{}, closureOf: map[string]*ssa.MakeClosure{}, lateBlocks: map[*ssa.BasicBlock]bool{}, ghostUsed: map[int]bool{}, dynType: map[string]types.Type{}, fieldPtrs: map[string]lvalue{}, monRel: map[string]*State{}, monAcq: map[string]*State{}, unlockSeen: map[string]int{}, genMerge: map[string][]edge{}, shadowParams: map[string]bool{}}
}

func (e *Enc) freshName(prefix string) string {
	e.n++
	return fmt.Sprintf("%s!%d", sanitize(prefix), e.n)
}

func (e *Enc) decl(name, sort string) {
	e.items = append(e.items, Item{Kind: IDecl, Name: name, Term: sort})
}

func (e *Enc) fresh(prefix, sort string) string {
	n := e.freshName(prefix)
	e.decl(n, sort)
	return n
}

func (e *Enc) freshVal(prefix string, t types.Type) Val {
	ss := flatten(t)
	cn := compNames(t)
	v := Val{T: t}
	offs := strOffsetIdx(t)
	for i, s := range ss {
		if offs[i] {
			v.C = append(v.C, "0")
			continue
		}
		suffix := ""
		if len(ss) > 1 {
			suffix = "." + cn[i]
		}
		v.C = append(v.C, e.fresh(prefix+suffix, s))
	}
	return v
}

func (e *Enc) def(term string) {
	if term == "true" {
		return
	}
	e.items = append(e.items, Item{Kind: IDef, Term: term})
}

func (e *Enc) assume(guard, term string) {
	if term == "true" {
		return
	}
	e.items = append(e.items, Item{Kind: IAssume, Guard: guard, Term: term})
}

func (e *Enc) assert(guard, name, class, term, src string, pos token.Pos) {
	e.items = append(e.items, Item{Kind: IAssert, Guard: guard, Term: term, Name: e.key + "#" + name, Class: class, Src: src, Pos: pos})
}

func (e *Enc) useSpec(name string) { e.used[name] = true }

func (e *Enc) ordinal(kind string) int {
	e.counters[kind]++
	return e.counters[kind]
}

// typeFacts returns range facts that hold of every Go value of type t.
func (e *Enc) typeFacts(v Val) string {
	switch u := v.T.Underlying().(type) {
	case *types.Basic:
		if lo, hi, ok := intRange(v.T); ok {
			return and(app("<=", lo, v.C[0]), app("<=", v.C[0], hi))
		}
		if u.Info()&types.IsString != 0 {
			return and(app("<=", "0", v.C[1]), app("<=", "0", v.C[2]), app("<=", v.C[2], "maxcap"))
		}
	case *types.Slice:
		return and(app("<=", "0", v.C[1]), app("<=", "0", v.C[2]), app("<=", v.C[2], v.C[3]), app("<=", v.C[3], "maxcap"),
			imp(eq(v.C[0], "0"), and(eq(v.C[2], "0"), eq(v.C[3], "0"))))
	case *types.Pointer, *types.Map, *types.Chan, *types.Signature:
		return "true" // references may be interior (negative) references
	case *types.Interface:
		return and(app("<=", "0", v.C[0]), imp(eq(v.C[0], "0"), eq(v.C[1], "0")))
	case *types.Struct:
		var fs []string
		for i := 0; i < u.NumFields(); i++ {
			lo, hi := fieldRange(u, i)
			fs = append(fs, e.typeFacts(Val{u.Field(i).Type(), v.C[lo:hi]}))
		}
		return and(fs...)
	case *types.Tuple:
		var fs []string
		lo := 0
		for i := 0; i < u.Len(); i++ {
			n := len(flatten(u.At(i).Type()))
			fs = append(fs, e.typeFacts(Val{u.At(i).Type(), v.C[lo : lo+n]}))
			lo += n
		}
		return and(fs...)
	}
	return "true"
}

// ---------- cells ----------

func cellKey(a *ssa.Alloc, j int) string { return fmt.Sprintf("c:%s:%d", a.Name(), j) }

func (e *Enc) cellGet(st *State, a *ssa.Alloc) Val {
	t := e.cellT[a]
	v := Val{T: t}
	for j := range flatten(t) {
		x, ok := st.m[cellKey(a, j)]
		if !ok {
			unsupp("cell %s (%s) read before allocation on this path", a.Name(), a.Comment)
		}
		v.C = append(v.C, x)
	}
	return v
}

func (e *Enc) cellSet(st *State, a *ssa.Alloc, lo int, v Val) {
	for j, c := range v.C {
		st.m[cellKey(a, lo+j)] = c
	}
}

func (e *Enc) lookupLocal(c *Ctx, name string) (Val, bool) {
	if name == "_pos" {
		return Val{}, false
	}
	if e.shadowParams[name] {
		return e.paramVals[name], true
	}
	as := e.cellName[name]
	if i := strings.Index(name, "__"); i > 0 {
		// name__N: the N-th local of that name in source order
		if n, err := strconv.Atoi(name[i+2:]); err == nil {
			all := append([]*ssa.Alloc{}, e.cellName[name[:i]]...)
			num := func(a *ssa.Alloc) int { n, _ := strconv.Atoi(strings.TrimPrefix(a.Name(), "t")); return n }
			all = nil
			for _, b := range e.fn.Blocks {
				for _, ins := range b.Instrs {
					if a, ok := ins.(*ssa.Alloc); ok && a.Comment == name[:i] {
						all = append(all, a)
					}
				}
			}
			sort.Slice(all, func(a, b int) bool { return num(all[a]) < num(all[b]) })
			if n >= 1 && n <= len(all) && c.St != nil {
				if _, ok := c.St.m[cellKey(all[n-1], 0)]; ok {
					return e.cellGet(c.St, all[n-1]), true
				}
			}
			return Val{}, false
		}
	}
	if c.St == nil {
		return Val{}, false
	}
	var live []*ssa.Alloc
	for _, a := range as {
		if a.Heap {
			continue
		}
		if _, ok := c.St.m[cellKey(a, 0)]; ok {
			live = append(live, a)
		}
	}
	if len(live) == 1 {
		return e.cellGet(c.St, live[0]), true
	}
	if len(live) > 1 {
		// prefer the innermost (latest allocated)
		return e.cellGet(c.St, live[len(live)-1]), true
	}
	for _, fv := range e.fn.FreeVars {
		if fv.Name() == name {
			pt := fv.Type().Underlying().(*types.Pointer)
			return e.loadPtr(c.St, pt.Elem(), e.regs[fv].C[0]), true
		}
	}
	for _, a := range as {
		if a.Heap {
			if r, ok := e.regs[a]; ok {
				return e.loadPtr(c.St, a.Type().Underlying().(*types.Pointer).Elem(), r.C[0]), true
			}
		}
	}
	if v, ok := e.paramVals[name]; ok {
		return v, true
	}
	return Val{}, false
}

// ---------- heap ----------

func typeKey(t types.Type) string {
	if b, ok := t.(*types.Basic); ok {
		// byte/uint8 and rune/int32 are the same type
		return types.Typ[b.Kind()].Name()
	}
	if n, ok := t.(*types.Named); ok {
		if n.Obj().Pkg() != nil {
			return n.Obj().Pkg().Name() + "." + n.Obj().Name()
		}
		return n.Obj().Name()
	}
	return sanitize(t.String())
}

func (e *Enc) heapKey(st *State, key, sort string) string {
	if _, ok := e.sorts[key]; !ok {
		e.sorts[key] = sort
	}
	if cur, ok := st.m[key]; ok {
		return cur
	}
	gen := st.m["gen"]
	if gen == "" {
		gen = "0"
	}
	name := "H" + gen + "." + sanitize(key)
	if _, ok := e.sorts["decl:"+name]; !ok {
		e.sorts["decl:"+name] = sort
		e.decl(name, sort)
		if in, isMerge := e.genMerge[gen]; isMerge {
			// a heap location first used after a join of paths with different heap generations:
			// its value is that of whichever path was taken
			for _, ed := range in {
				e.def(imp(ed.guard, eq(name, e.heapKey(ed.st, key, sort))))
			}
		}
	}
	st.m[key] = name
	return name
}

func isHeapKey(k string) bool {
	return strings.HasPrefix(k, "h:") || strings.HasPrefix(k, "m:") || strings.HasPrefix(k, "p:") || strings.HasPrefix(k, "map.") || strings.HasPrefix(k, "g:")
}

// havocAll forgets every heap fact: a new generation of heap names.
func (e *Enc) havocAll(st *State, g string) {
	e.sorts["hv:all"] = SBool
	st.m["hv:all"] = "true"
	// private escaping locals (captured by closures of this function only) keep their value
	type saved struct {
		a   *ssa.Alloc
		old Val
	}
	var keep []saved
	type savedFV struct {
		fv  *ssa.FreeVar
		old Val
	}
	var keepFV []savedFV
	for _, fv := range e.privateFVs {
		t := fv.Type().Underlying().(*types.Pointer).Elem()
		if _, isSt := t.Underlying().(*types.Struct); !isSt {
			keepFV = append(keepFV, savedFV{fv, e.loadPtr(st, t, e.regs[fv].C[0])})
		}
	}
	defer func() {
		for _, s := range keepFV {
			t := s.fv.Type().Underlying().(*types.Pointer).Elem()
			e.assume(g, valEq(e.loadPtr(st, t, e.regs[s.fv].C[0]), s.old))
		}
	}()
	for _, a := range e.privateCells {
		if r, ok := e.regs[a]; ok {
			t := a.Type().Underlying().(*types.Pointer).Elem()
			if _, isSt := t.Underlying().(*types.Struct); !isSt {
				keep = append(keep, saved{a, e.loadPtr(st, t, r.C[0])})
			}
		}
	}
	defer func() {
		for _, s := range keep {
			t := s.a.Type().Underlying().(*types.Pointer).Elem()
			nv := e.loadPtr(st, t, e.regs[s.a].C[0])
			e.assume(g, valEq(nv, s.old))
		}
	}()
	for k := range st.m {
		if isHeapKey(k) {
			delete(st.m, k)
		}
	}
	e.n++
	st.m["gen"] = fmt.Sprintf("%d", e.n)
	old := st.m["alloc"]
	st.m["alloc"] = e.fresh("alloc", SInt)
	e.assume(g, app("<=", old, st.m["alloc"]))
}

func fieldKey(stT types.Type, fidx, j int) string {
	s := stT.Underlying().(*types.Struct)
	return fmt.Sprintf("h:%s.%s:%d", typeKey(stT), s.Field(fidx).Name(), j)
}

func (e *Enc) loadField(st *State, stT types.Type, fidx int, ref string) Val {
	return e.loadFieldDeep(st, stT, fidx, ref)
}

// sharedKey: a field other threads may write at any time while this function runs.
func (e *Enc) sharedKey(stT types.Type, fidx int) bool {
	if e.spec == nil || e.spec.Thread != "any" {
		return false
	}
	if e.sharedSet == nil {
		e.sharedSet = map[string]bool{}
		for _, m := range e.W.Specs.Monitors {
			for _, p := range m.Shared {
				for _, ks := range e.resolveHeapItem(p) {
					e.sharedSet[ks[0]] = true
				}
			}
		}
	}
	return e.sharedSet[fieldKey(stT, fidx, 0)]
}

func (e *Enc) loadFieldFlat(st *State, stT types.Type, fidx int, ref string) Val {
	if e.sharedKey(stT, fidx) {
		// unstable read: any value of the type, different at every read
		s := stT.Underlying().(*types.Struct)
		return e.freshVal("shared."+s.Field(fidx).Name(), s.Field(fidx).Type())
	}
	s := stT.Underlying().(*types.Struct)
	ft := s.Field(fidx).Type()
	v := Val{T: ft}
	for j, so := range flatten(ft) {
		h := e.heapKey(st, fieldKey(stT, fidx, j), "(Array Int "+so+")")
		v.C = append(v.C, app("select", h, ref))
	}
	return v
}

func (e *Enc) storeField(st *State, stT types.Type, fidx int, ref string, v Val) {
	e.storeFieldDeep(st, stT, fidx, ref, v)
}

func (e *Enc) storeFieldFlat(st *State, stT types.Type, fidx int, ref string, v Val) {
	s := stT.Underlying().(*types.Struct)
	ft := s.Field(fidx).Type()
	for j, so := range flatten(ft) {
		k := fieldKey(stT, fidx, j)
		h := e.heapKey(st, k, "(Array Int "+so+")")
		nh := e.fresh("H."+typeKey(stT)+"."+s.Field(fidx).Name(), "(Array Int "+so+")")
		e.def(eq(nh, app("store", h, ref, v.C[j])))
		st.m[k] = nh
	}
}

func elemKey(t types.Type, j int) string { return fmt.Sprintf("m:%s:%d", typeKey(t), j) }

// sliceElem reads element i (relative) of slice b.
func (e *Enc) sliceElem(st *State, elemT types.Type, b Val, i string) Val {
	return e.elemAt(st, elemT, b.C[0], add(b.C[1], i))
}

func (e *Enc) elemAt(st *State, elemT types.Type, ref, abs string) Val {
	v := Val{T: elemT}
	for j, so := range flatten(elemT) {
		h := e.heapKey(st, elemKey(elemT, j), "(Array Int (Array Int "+so+"))")
		v.C = append(v.C, app("select", app("select", h, ref), abs))
	}
	return v
}

func (e *Enc) elemStore(st *State, elemT types.Type, ref, abs string, v Val) {
	for j, so := range flatten(elemT) {
		k := elemKey(elemT, j)
		h := e.heapKey(st, k, "(Array Int (Array Int "+so+"))")
		nh := e.fresh("M."+typeKey(elemT), "(Array Int (Array Int "+so+"))")
		e.def(eq(nh, app("store", h, ref, app("store", app("select", h, ref), abs, v.C[j]))))
		st.m[k] = nh
	}
}

// bytesOf views a []byte as a string value (content snapshot in the given state).
func (e *Enc) bytesOf(st *State, v Val) Val {
	h := e.heapKey(st, elemKey(tByte, 0), "(Array Int (Array Int Int))")
	return sval(app("select", h, v.C[0]), v.C[1], v.C[2])
}

func ptrKey(t types.Type, j int) string { return fmt.Sprintf("p:%s:%d", typeKey(t), j) }

func (e *Enc) loadPtr(st *State, elemT types.Type, ref string) Val {
	if lv, ok := e.fieldPtrs[ref]; ok {
		return e.loadField(st, lv.stT, lv.fidx, lv.obj)
	}
	if s, ok := elemT.Underlying().(*types.Struct); ok {
		v := Val{T: elemT}
		for i := 0; i < s.NumFields(); i++ {
			v.C = append(v.C, e.loadField(st, elemT, i, ref).C...)
		}
		return v
	}
	v := Val{T: elemT}
	for j, so := range flatten(elemT) {
		h := e.heapKey(st, ptrKey(elemT, j), "(Array Int "+so+")")
		v.C = append(v.C, app("select", h, ref))
	}
	return v
}

func (e *Enc) storePtr(st *State, elemT types.Type, ref string, v Val) {
	if lv, ok := e.fieldPtrs[ref]; ok {
		e.storeField(st, lv.stT, lv.fidx, lv.obj, v)
		return
	}
	if s, ok := elemT.Underlying().(*types.Struct); ok {
		for i := 0; i < s.NumFields(); i++ {
			lo, hi := fieldRange(s, i)
			e.storeField(st, elemT, i, ref, Val{s.Field(i).Type(), v.C[lo:hi]})
		}
		return
	}
	for j, so := range flatten(elemT) {
		k := ptrKey(elemT, j)
		h := e.heapKey(st, k, "(Array Int "+so+")")
		nh := e.fresh("P."+typeKey(elemT), "(Array Int "+so+")")
		e.def(eq(nh, app("store", h, ref, v.C[j])))
		st.m[k] = nh
	}
}

// allocation: a monotone counter; refs >= counter are unallocated.
func (e *Enc) allocRef(st *State, g string, what string) string {
	cur := e.heapKey(st, "alloc", SInt)
	r := e.fresh("new."+what, SInt)
	e.def(eq(r, cur))
	nx := e.fresh("alloc", SInt)
	e.def(eq(nx, add(cur, "1")))
	st.m["alloc"] = nx
	return r
}

func (e *Enc) mapCard(st *State, m Val) string {
	h := e.heapKey(st, "map.card", "(Array Int Int)")
	c := app("select", h, m.C[0])
	e.def(app("<=", "0", c)) // a cardinality, in every heap version
	return ite(eq(m.C[0], "0"), "0", c)
}

func (e *Enc) specialPred(c *Ctx, name string, x interface{}) Val {
	panic("special predicate " + name + " not implemented")
}

// ---------- main driver ----------

type funcResult struct {
	Key     string
	Items   []Item
	Used    []string
	Outside string // non-empty: function left the subset
	NLoops  int
	Trusted []string
}

// allocatedFacts: every reference held by a value was allocated before now.
func (e *Enc) allocatedFacts(st *State, v Val) string {
	al := e.heapKey(st, "alloc", SInt)
	var walk func(t types.Type, cs []string) []string
	walk = func(t types.Type, cs []string) []string {
		var out []string
		switch u := t.Underlying().(type) {
		case *types.Pointer:
			out = append(out, app("<", cs[0], al))
			// an interior pointer (negative reference) lies inside an allocated object
			r := cs[0]
			b1 := app("subBase", r)
			b2 := app("subBase", b1)
			out = append(out, imp(app("<", r, "0"), or(
				and(app("<", "0", b1), app("<", b1, al)),
				and(app("<", b1, "0"), app("<", "0", b2), app("<", b2, al)),
				and(app("<", b1, "0"), app("<", b2, "0")))))
		case *types.Map, *types.Chan:
			out = append(out, app("<", cs[0], al))
		case *types.Slice:
			out = append(out, app("<", cs[0], al))
		case *types.Interface:
			out = append(out, app("<", cs[1], al))
		case *types.Struct:
			for i := 0; i < u.NumFields(); i++ {
				lo, hi := fieldRange(u, i)
				out = append(out, walk(u.Field(i).Type(), cs[lo:hi])...)
			}
		case *types.Tuple:
			lo := 0
			for i := 0; i < u.Len(); i++ {
				n := len(flatten(u.At(i).Type()))
				out = append(out, walk(u.At(i).Type(), cs[lo:lo+n])...)
				lo += n
			}
		}
		return out
	}
	return and(walk(v.T, v.C)...)
}

// inputBound: lengths of inputs and of dependency results are at most maxlen (T3).
func (e *Enc) inputBound(v Val) string {
	switch u := v.T.Underlying().(type) {
	case *types.Basic:
		if u.Info()&types.IsString != 0 {
			return app("<=", v.C[2], "maxlen")
		}
	case *types.Slice:
		return app("<=", v.C[3], "maxlen")
	case *types.Tuple:
		var fs []string
		lo := 0
		for i := 0; i < u.Len(); i++ {
			n := len(flatten(u.At(i).Type()))
			fs = append(fs, e.inputBound(Val{u.At(i).Type(), v.C[lo : lo+n]}))
			lo += n
		}
		return and(fs...)
	case *types.Struct:
		var fs []string
		for i := 0; i < u.NumFields(); i++ {
			lo, hi := fieldRange(u, i)
			fs = append(fs, e.inputBound(Val{u.Field(i).Type(), v.C[lo:hi]}))
		}
		return and(fs...)
	}
	return "true"
}

func (e *Enc) backEdge(from, to *ssa.BasicBlock) bool {
	return to.Dominates(from)
}

func (e *Enc) findLoops() {
	fn := e.fn
	var headers []*ssa.BasicBlock
	seen := map[*ssa.BasicBlock]bool{}
	for _, b := range fn.Blocks {
		for _, s := range b.Succs {
			if e.backEdge(b, s) && !seen[s] {
				seen[s] = true
				headers = append(headers, s)
			}
		}
	}
	sort.Slice(headers, func(i, j int) bool { return headers[i].Index < headers[j].Index })
	for i, h := range headers {
		li := &loopInfo{ord: i + 1, header: h, blocks: map[*ssa.BasicBlock]bool{h: true}}
		// natural loop: all blocks that can reach a back-edge source without passing through h
		var stack []*ssa.BasicBlock
		for _, b := range fn.Blocks {
			for _, s := range b.Succs {
				if s == h && e.backEdge(b, h) && !li.blocks[b] {
					li.blocks[b] = true
					stack = append(stack, b)
				}
			}
		}
		for len(stack) > 0 {
			b := stack[len(stack)-1]
			stack = stack[:len(stack)-1]
			for _, p := range b.Preds {
				if !li.blocks[p] {
					li.blocks[p] = true
					stack = append(stack, p)
				}
			}
		}
		if e.spec != nil {
			li.spec = e.spec.Loops[li.ord]
		}
		e.loops[h] = li
	}
}

func (e *Enc) topo() []*ssa.BasicBlock {
	var order []*ssa.BasicBlock
	visited := map[*ssa.BasicBlock]bool{}
	var dfs func(b *ssa.BasicBlock)
	dfs = func(b *ssa.BasicBlock) {
		visited[b] = true
		for _, s := range b.Succs {
			if e.backEdge(b, s) {
				continue
			}
			if !visited[s] {
				dfs(s)
			}
		}
		order = append(order, b)
	}
	dfs(e.fn.Blocks[0])
	for i, j := 0, len(order)-1; i < j; i, j = i+1, j-1 {
		order[i], order[j] = order[j], order[i]
	}
	return order
}

// modifiedKeys: state keys possibly written inside the loop.
func (e *Enc) loopWrites(li *loopInfo) (cells map[*ssa.Alloc]bool, heapAll bool, heapKeys map[string]string, iters map[ssa.Value]bool) {
	cells = map[*ssa.Alloc]bool{}
	heapKeys = map[string]string{} // key -> sort
	iters = map[ssa.Value]bool{}
	pointKeys := map[string][]string{}
	pointSort := map[string]string{}
	e.loopPointKeys, e.loopPointSort = pointKeys, pointSort
	addPtr := func(t types.Type) {
		if st, ok := t.Underlying().(*types.Struct); ok {
			for i := 0; i < st.NumFields(); i++ {
				if _, nested := st.Field(i).Type().Underlying().(*types.Struct); nested {
					heapAll = true // nested objects: keep it simple
					return
				}
				for j, so := range flatten(st.Field(i).Type()) {
					heapKeys[fieldKey(t, i, j)] = "(Array Int " + so + ")"
				}
			}
			return
		}
		for j, so := range flatten(t) {
			heapKeys[ptrKey(t, j)] = "(Array Int " + so + ")"
		}
	}
	addElems := func(t types.Type) {
		for j, so := range flatten(t) {
			heapKeys[elemKey(t, j)] = "(Array Int (Array Int " + so + "))"
		}
	}
	addMap := func(mt *types.Map) {
		heapKeys[mapHasKey(mt)] = "(Array Int (Array Int Bool))"
		heapKeys["map.card"] = "(Array Int Int)"
		for j, so := range flatten(mt.Elem()) {
			heapKeys[mapValKey(mt, j)] = "(Array Int (Array Int " + so + "))"
		}
	}
	var curArgs []ssa.Value
	addSpecModifies := func(spec *FuncSpec) {
		if !spec.Trusted {
			heapKeys["alloc"] = SInt
		}
		for _, m := range spec.Modifies {
			switch {
			case strings.HasPrefix(m, "*"):
				// the object a pointer argument points to: every location of its type
				done := false
				for i, p := range spec.Params {
					if p.Name == m[1:] && i < len(curArgs) {
						if pt, ok := curArgs[i].Type().Underlying().(*types.Pointer); ok {
							if a, isAlloc := curArgs[i].(*ssa.Alloc); isAlloc && a.Heap {
								if r, known := e.regs[a]; known && !li.blocks[a.Block()] {
									// a local object allocated before the loop: only that object changes
									tmp := map[string]string{}
									e.objectKeySorts(pt.Elem(), tmp)
									for k, so := range tmp {
										pointKeys[k] = append(pointKeys[k], r.C[0])
										pointSort[k] = strings.TrimSuffix(strings.TrimPrefix(so, "(Array Int "), ")")
									}
									done = true
									continue
								}
							}
							e.objectKeySorts(pt.Elem(), heapKeys)
							done = true
						}
					}
				}
				if !done {
					heapAll = true
				}
			case m == "all":
				heapAll = true
			case m == "alloc":
				heapKeys["alloc"] = SInt
			case m == "nothing" || m == "":
			case strings.HasPrefix(m, "map:"):
				for _, ks := range e.resolveMapItem(strings.TrimPrefix(m, "map:")) {
					heapKeys[ks[0]] = ks[1]
				}
			default:
				for _, ks := range e.resolveHeapItem(m) {
					heapKeys[ks[0]] = ks[1]
				}
			}
		}
	}
	// ghost variables assigned by ghost statements anchored at an assignment inside the loop change in the loop
	// (ghost statements anchored at calls are covered by the callee's modifies clause or are function-level counters
	// that the invariants restate)
	if e.spec != nil {
		for _, gs := range e.spec.Ghost {
			if gs.Kind != "set" || !strings.HasPrefix(gs.Anchor, "store ") {
				continue
			}
			f := strings.Fields(gs.Anchor)
			if len(f) < 2 {
				continue
			}
			inLoop := false
			for b := range li.blocks {
				for _, ins := range b.Instrs {
					if st, ok := ins.(*ssa.Store); ok {
						if n, k := e.storeOrd(st); n != "" && fmt.Sprintf("%s#%d", n, k) == f[1] {
							inLoop = true
						}
					}
				}
			}
			if inLoop {
				for _, ks := range e.resolveModifies("ghost." + gs.Target) {
					heapKeys[ks[0]] = ks[1]
				}
			}
		}
	}
	for b := range li.blocks {
		for _, ins := range b.Instrs {
			switch ins := ins.(type) {
			case *ssa.Store:
				if a := rootAlloc(ins.Addr); a != nil && !a.Heap {
					cells[a] = true
					break
				}
				switch ad := ins.Addr.(type) {
				case *ssa.FieldAddr:
					pt := ad.X.Type().Underlying().(*types.Pointer).Elem()
					ft := pt.Underlying().(*types.Struct).Field(ad.Field).Type()
					if ia, isElem := ad.X.(*ssa.IndexAddr); isElem {
						// field of a slice element: the element memory of that slice type
						if sl, ok := ia.X.Type().Underlying().(*types.Slice); ok {
							addElems(sl.Elem())
						} else {
							heapAll = true
						}
					} else if _, nested := ft.Underlying().(*types.Struct); nested {
						heapAll = true
					} else if _, isArr := ft.Underlying().(*types.Array); isArr {
						heapAll = true
					} else {
						for j, so := range flatten(ft) {
							heapKeys[fieldKey(pt, ad.Field, j)] = "(Array Int " + so + ")"
						}
					}
				case *ssa.IndexAddr:
					switch u := ad.X.Type().Underlying().(type) {
					case *types.Slice:
						addElems(u.Elem())
					case *types.Pointer:
						if at, ok := u.Elem().Underlying().(*types.Array); ok {
							addElems(at.Elem())
						} else {
							heapAll = true
						}
					default:
						heapAll = true
					}
				case *ssa.Alloc:
					addPtr(ad.Type().Underlying().(*types.Pointer).Elem())
				case *ssa.FreeVar:
					// assignment to a captured variable: only that cell changes
					et := ad.Type().Underlying().(*types.Pointer).Elem()
					if _, isSt := et.Underlying().(*types.Struct); isSt {
						addPtr(et)
					} else {
						for j, so := range flatten(et) {
							k := ptrKey(et, j)
							pointKeys[k] = append(pointKeys[k], e.regs[ad].C[0])
							pointSort[k] = so
						}
					}
				default:
					heapAll = true
				}
			case *ssa.Next:
				iters[ins.Iter] = true
			case *ssa.MapUpdate:
				addMap(ins.Map.Type().Underlying().(*types.Map))
			case *ssa.Call:
				cc := ins.Call
				if bi, ok := cc.Value.(*ssa.Builtin); ok {
					switch bi.Name() {
					case "len", "cap", "ssa:deferstack", "recover":
					case "append":
						addElems(ins.Type().Underlying().(*types.Slice).Elem())
						heapKeys["alloc"] = SInt
					case "copy":
						addElems(cc.Args[0].Type().Underlying().(*types.Slice).Elem())
					case "delete":
						addMap(cc.Args[0].Type().Underlying().(*types.Map))
					default:
						heapAll = true
					}
					break
				}
				var spec *FuncSpec
				if f := cc.StaticCallee(); f != nil && !cc.IsInvoke() {
					if f.Pkg != nil && f.Pkg.Pkg.Path() == "sync/atomic" {
						break
					}
					spec = e.W.Specs.Funcs[funcKey(f)]
					if spec == nil {
						spec = e.W.pureDefault(f)
					}
				} else if cc.IsInvoke() {
					recvT := cc.Value.Type()
					if n, ok := recvT.(*types.Named); ok {
						pkg := ""
						if n.Obj().Pkg() != nil {
							pkg = n.Obj().Pkg().Name() + "."
						}
						spec = e.W.Specs.Funcs[pkg+n.Obj().Name()+"."+cc.Method.Name()]
					}
				}
				if spec == nil && !cc.IsInvoke() && cc.StaticCallee() == nil && e.spec != nil {
					// call of a function value: its callback contract
					if cb := e.spec.Callbacks[calleeDesignator(cc.Value)]; cb != "" {
						spec = e.W.Specs.Funcs["callback."+cb]
					} else if n, ok := cc.Value.Type().(*types.Named); ok {
						spec = e.W.Specs.Funcs["callback."+n.Obj().Name()]
					}
				}
				if spec == nil || spec.Holds != "" {
					heapAll = true
					break
				}
				curArgs = cc.Args
				if cc.IsInvoke() {
					curArgs = append([]ssa.Value{cc.Value}, cc.Args...)
				} else if cc.StaticCallee() == nil {
					curArgs = append([]ssa.Value{cc.Value}, cc.Args...) // callback contracts: self first
				}
				addSpecModifies(spec)
				// a callee that runs a closure argument (applies / invokes) also does what that closure does:
				// the closure's modifies clause and the captured variables it assigns change in the loop
				for _, hp := range []string{spec.Applies, spec.Invokes} {
					if hp == "" {
						continue
					}
					for i, p := range spec.Params {
						if p.Name != hp || i >= len(curArgs) {
							continue
						}
						mc, ok := curArgs[i].(*ssa.MakeClosure)
						if !ok {
							heapAll = true
							continue
						}
						cfn := mc.Fn.(*ssa.Function)
						cs := e.W.Specs.Funcs[funcKey(cfn)]
						if cs == nil {
							heapAll = true
							continue
						}
						saved := curArgs
						curArgs = nil
						addSpecModifies(cs)
						curArgs = saved
						for j, fv := range cfn.FreeVars {
							if closureWrites(cfn, fv) {
								if a, isAlloc := mc.Bindings[j].(*ssa.Alloc); isAlloc {
									if !a.Heap {
										cells[a] = true
									} else {
										addPtr(a.Type().Underlying().(*types.Pointer).Elem())
									}
								} else {
									heapAll = true
								}
							}
						}
					}
				}
				curArgs = nil
			case *ssa.UnOp:
				if ins.Op == token.ARROW {
					if spec := e.chanSpec("recv", ins); spec != nil {
						addSpecModifies(spec)
					}
				}
			case *ssa.Send:
				if spec := e.chanSpec("send", ins); spec != nil {
					addSpecModifies(spec)
				}
			case *ssa.Select:
			case *ssa.MakeChan:
				heapKeys["alloc"] = SInt
			case *ssa.Go:
				// spawning a function under contract has no sequential effect (goInstr)
				if f, ok := ins.Call.Value.(*ssa.Function); !ok || ins.Call.IsInvoke() || e.W.Specs.Funcs[funcKey(f)] == nil {
					heapAll = true
				}
			case *ssa.Defer:
				heapAll = true
			case *ssa.Alloc:
				if ins.Heap {
					heapKeys["alloc"] = SInt
					addPtr(ins.Type().Underlying().(*types.Pointer).Elem())
				}
			case *ssa.MakeSlice:
				heapKeys["alloc"] = SInt
				addElems(ins.Type().Underlying().(*types.Slice).Elem())
			case *ssa.MakeMap:
				heapKeys["alloc"] = SInt
				addMap(ins.Type().Underlying().(*types.Map))
			case *ssa.MakeClosure:
			case *ssa.MakeInterface:
				if !pointerShaped(ins.X.Type()) {
					heapKeys["alloc"] = SInt
					for j, so := range flatten(ins.X.Type()) {
						heapKeys[boxKey(ins.X.Type(), j)] = "(Array Int " + so + ")"
					}
				}
			case *ssa.Convert:
				if isByteSlice(ins.Type()) && isString(ins.X.Type()) {
					heapKeys["alloc"] = SInt
					addElems(tByte)
				}
			}
		}
	}
	return
}

func rootAlloc(v ssa.Value) *ssa.Alloc {
	for {
		switch x := v.(type) {
		case *ssa.Alloc:
			return x
		case *ssa.FieldAddr:
			// only local struct cells (x.X is an Alloc of struct type)
			if a, ok := x.X.(*ssa.Alloc); ok && !a.Heap {
				return a
			}
			return nil
		case *ssa.IndexAddr:
			if a, ok := x.X.(*ssa.Alloc); ok && !a.Heap {
				return a
			}
			return nil
		default:
			return nil
		}
	}
}

// loopPos binds _pos to the hidden position of the range iterator advanced in the loop header.
func (e *Enc) loopPos(c *Ctx, li *loopInfo) {
	for _, ins := range li.header.Instrs {
		if nx, ok := ins.(*ssa.Next); ok {
			if p, ok := c.St.m["it:"+nx.Iter.Name()]; ok {
				if nx.IsString {
					c.Vars["_pos"] = ival(p)
				} else {
					// range over a map: the ghost set of key ids already visited, and its size
					c.Vars["_seen"] = Val{tArrB, []string{p}}
					c.Vars["_seenn"] = ival(c.St.m["it:"+nx.Iter.Name()+":n"])
				}
			}
		}
	}
}

func (e *Enc) ctx(st *State, where string) *Ctx {
	c := &Ctx{E: e, Vars: map[string]Val{}, St: st, where: e.key + " " + where}
	if e.entryCtx != nil {
		c.Old = e.entryCtx
	}
	return c
}

func clauseName(c Clause, i int) string {
	if c.Label != "" {
		return c.Label
	}
	return fmt.Sprintf("%d", i+1)
}

// Encode translates the function. It panics with unsupported{} when the body
// leaves the subset.
func (e *Enc) Encode() {
	fn := e.fn
	e.decl("strk", SArr)
	e.decl("maxlen", SInt)
	e.def("(= maxlen 2305843009213693952)") // 2^61: assumed bound on the length of any input or dependency result (T3)
	e.decl("maxcap", SInt)
	e.def("(= maxcap 9223372036854775807)") // MaxInt: proved bound on every length the code itself produces
	e.findLoops()
	// loops must have invariants
	for _, li := range e.loops {
		if li.spec == nil || len(li.spec.Inv) == 0 {
			unsupp("loop %d has no invariant", li.ord)
		}
	}
	if e.spec != nil {
		for n := range e.spec.Loops {
			if n < 1 || n > len(e.loops) {
				panic(contractMismatch{fmt.Sprintf("contract names loop %d but function has %d loops", n, len(e.loops))})
			}
		}
	}
	st := &State{m: map[string]string{}}
	e.entrySt = &State{m: map[string]string{}}
	// parameters
	names := e.paramNames()
	for i, p := range fn.Params {
		v := e.freshVal("in."+p.Name(), p.Type())
		e.regs[p] = v
		e.assume("true", e.typeFacts(v))
		e.assume("true", e.inputBound(v))
		e.assume("true", e.allocatedFacts(st, v))
		if i < len(names) && names[i] != "" {
			e.paramVals[names[i]] = v
		}
		e.paramVals[p.Name()] = v
		// the contract header's receiver/parameter kind is part of the specification
		if e.spec != nil && i < len(e.spec.Params) {
			declPtr := strings.HasPrefix(strings.TrimSpace(e.spec.Params[i].Type), "*")
			_, codePtr := p.Type().Underlying().(*types.Pointer)
			_, codeStruct := p.Type().Underlying().(*types.Struct)
			switch {
			case declPtr && codeStruct:
				// contract speaks about the caller's object, the code works on a copy: the caller's
				// object is a ghost object equal to the copy at entry; the contract is read against it
				r := e.fresh("callerobj."+p.Name(), SInt)
				e.assume("true", and(app("<", "0", r), app("<", r, e.heapKey(st, "alloc", SInt))))
				e.assume("true", valEq(e.loadPtr(st, p.Type(), r), v))
				pv := Val{types.NewPointer(p.Type()), []string{r}}
				e.paramVals[names[i]] = pv
				e.paramVals[p.Name()] = pv
				e.shadowParams[p.Name()] = true
			case !declPtr && codePtr && e.spec.Params[i].Type != "" && !strings.Contains(e.spec.Params[i].Type, "interface"):
				if pt, ok := p.Type().Underlying().(*types.Pointer); ok {
					if _, isSt := pt.Elem().Underlying().(*types.Struct); isSt && i == 0 && e.spec.RecvName != "" {
						// contract declares copy semantics, the code has a pointer receiver: the method must
						// leave the caller's object unchanged
						e.frameRecv = &v
						e.frameRecvT = pt.Elem()
					}
				}
			}
		}
	}
	for _, fv := range fn.FreeVars {
		// free variables are pointers to captured cells: model as pointer-typed refs
		v := e.freshVal("fv."+fv.Name(), fv.Type())
		e.regs[fv] = v
		e.assume("true", e.typeFacts(v))
		e.assume("true", not(eq(v.C[0], "0")))
	}
	if p := fn.Parent(); p != nil && len(fn.FreeVars) > 1 {
		// captured variables are distinct variables, hence distinct cells: assumed when every closure
		// creation site in the parent binds pairwise different SSA values (checked here)
		distinctOK := true
		for _, b := range p.Blocks {
			for _, ins := range b.Instrs {
				if mc, ok := ins.(*ssa.MakeClosure); ok && mc.Fn == ssa.Value(fn) {
					seen := map[ssa.Value]bool{}
					for _, bnd := range mc.Bindings {
						_, isAlloc := bnd.(*ssa.Alloc)
						_, isFV := bnd.(*ssa.FreeVar)
						if seen[bnd] || !(isAlloc || isFV) {
							distinctOK = false
						}
						seen[bnd] = true
					}
				}
			}
		}
		if distinctOK {
			var refs []string
			for _, fv := range fn.FreeVars {
				refs = append(refs, e.regs[fv].C[0])
			}
			e.assume("true", "(distinct "+strings.Join(refs, " ")+")")
		}
	}
	if p := fn.Parent(); p != nil {
		// captured variables whose cell is private to the parent and its closures, and that this
		// closure does not assign, keep their value across calls to other code
		for _, b := range p.Blocks {
			for _, ins := range b.Instrs {
				if mc, ok := ins.(*ssa.MakeClosure); ok && mc.Fn == ssa.Value(fn) {
					for i, bnd := range mc.Bindings {
						if a, ok := bnd.(*ssa.Alloc); ok && isPrivateCell(a) && !closureWrites(fn, fn.FreeVars[i]) {
							e.privateFVs = append(e.privateFVs, fn.FreeVars[i])
						}
					}
				}
			}
		}
	}
	if e.recovers(fn) {
		rv := e.freshVal("recovered", types.NewInterfaceType(nil, nil))
		e.assume("true", e.typeFacts(rv))
		e.paramVals["recovered"] = rv
	}
	st.m["alloc"] = e.heapKey(st, "alloc", SInt)
	e.assume("true", app("<", "0", st.m["alloc"]))
	e.sorts["hv:all"] = SBool
	st.m["hv:all"] = "false"
	e.monInit(st)
	e.entryCtx = &Ctx{E: e, Vars: map[string]Val{}, St: e.entrySt, where: e.key + " old()"}
	for k, v := range e.paramVals {
		e.entryCtx.Vars[k] = v
	}
	// requires
	if e.spec != nil {
		c := e.ctx(st, "requires")
		for _, r := range e.spec.Requires {
			e.assume("true", c.boolT(r.Expr))
		}
	}
	// snapshot entry state lazily: entrySt shares H0 names; heapKey fills it.
	for k, v := range st.m {
		e.entrySt.m[k] = v
	}
	eb := &blockState{e: e, b: fn.Blocks[0], g: "true", st: st}
	eb.ghostAt("entry", fn.Blocks[0].Instrs[0], nil)
	order := e.topo()
	e.inEdges[fn.Blocks[0]] = []edge{{guard: eb.g, st: st}}
	for _, b := range order {
		e.block(b)
	}
	// blocks entered only by recovered panics (fn.Recover)
	for _, b := range e.fn.Blocks {
		if e.lateBlocks[b] {
			e.block(b)
		}
	}
	e.finish()
	if e.spec != nil {
		for gi, gs := range e.spec.Ghost {
			if !e.ghostUsed[gi] {
				panic(contractMismatch{"ghost statement anchor not found: " + gs.Anchor})
			}
		}
	}
}

type contractMismatch struct{ msg string }

func (c contractMismatch) Error() string { return c.msg }

func (e *Enc) paramNames() []string {
	var out []string
	if e.spec == nil {
		return nil
	}
	for _, p := range e.spec.Params {
		out = append(out, p.Name)
	}
	return out
}

// merge incoming edges into a block-entry state.
func (e *Enc) merge(label string, in []edge) (string, *State) {
	if len(in) == 0 {
		return "false", &State{m: map[string]string{}}
	}
	if len(in) == 1 {
		return in[0].guard, in[0].st.clone()
	}
	var gs []string
	for _, ed := range in {
		gs = append(gs, ed.guard)
	}
	g := e.fresh("g."+label, SBool)
	e.def(eq(g, or(gs...)))
	st := &State{m: map[string]string{}}
	// keys present in all incoming states
	keys := map[string]int{}
	for _, ed := range in {
		for k := range ed.st.m {
			keys[k]++
		}
	}
	var ks []string
	for k, n := range keys {
		if k == "gen" {
			continue
		}
		if k == "mon:acq" || k == "mon:rel" {
			same := n == len(in)
			for _, ed := range in {
				if ed.st.m[k] != in[0].st.m[k] {
					same = false
				}
			}
			if same {
				st.m[k] = in[0].st.m[k]
			}
			continue
		}
		if n == len(in) {
			ks = append(ks, k)
		} else if strings.HasPrefix(k, "c:") {
			// a local declared on only some of the paths: on the others it is still its zero value
			ks = append(ks, k)
			for _, ed := range in {
				if _, ok := ed.st.m[k]; !ok {
					ed.st.m[k] = zeroOfSort(e.sorts[k])
				}
			}
		} else if isHeapKey(k) {
			// heap keys are created lazily: a missing entry means "still the entry version"
			ks = append(ks, k)
		}
	}
	gen0 := in[0].st.m["gen"]
	for _, ed := range in {
		if ed.st.m["gen"] != gen0 {
			e.n++
			gen0 = fmt.Sprintf("m%d", e.n)
			e.genMerge[gen0] = in
			break
		}
	}
	if gen0 != "" {
		st.m["gen"] = gen0
	}
	sort.Strings(ks)
	for _, k := range ks {
		same := true
		var terms []string
		for _, ed := range in {
			t, ok := ed.st.m[k]
			if !ok {
				t = e.heapKey(ed.st, k, e.sorts[k])
			}
			terms = append(terms, t)
			if t != terms[0] {
				same = false
			}
		}
		if same {
			st.m[k] = terms[0]
			continue
		}
		so := e.sortOfKey(k)
		nv := e.fresh("j."+label+"."+k, so)
		for i, ed := range in {
			e.def(imp(ed.guard, eq(nv, terms[i])))
		}
		st.m[k] = nv
	}
	return g, st
}

func (e *Enc) sortOfKey(k string) string {
	if s, ok := e.sorts[k]; ok {
		return s
	}
	panic("no sort for state key " + k)
}

func (e *Enc) block(b *ssa.BasicBlock) {
	in := e.inEdges[b]
	label := fmt.Sprintf("b%d", b.Index)
	g, st := e.merge(label, in)
	if len(in) == 0 {
		return // unreachable in cut graph
	}
	e.curBlock = b
	if li, ok := e.loops[b]; ok {
		li.entry = st.clone()
		li.gIn = g
		entryCtx := e.ctx(li.entry, fmt.Sprintf("loop %d entry", li.ord))
		e.loopPos(entryCtx, li)
		lb := &blockState{e: e, b: b, g: g, st: st}
		lb.ghostAt(fmt.Sprintf("loop %d entry", li.ord), b.Instrs[0], nil)
		lb.monSegment(fmt.Sprintf("loop%d.entry", li.ord), b.Instrs[0])
		g = lb.g
		c := e.ctx(st, fmt.Sprintf("loop %d init", li.ord))
		e.loopPos(c, li)
		c.LoopEntry = entryCtx
		for i, inv := range li.spec.Inv {
			e.assert(g, fmt.Sprintf("loop%d.init.%s", li.ord, clauseName(inv, i)), "inv", c.boolT(inv.Expr), inv.Src, b.Instrs[0].Pos())
		}
		// havoc
		cells, heapAll, heapKeys, iters := e.loopWrites(li)
		var keys []string
		for k := range st.m {
			keys = append(keys, k)
		}
		sort.Strings(keys)
		if heapAll {
			e.havocAll(st, g)
		} else {
			var hk []string
			for k := range heapKeys {
				hk = append(hk, k)
			}
			sort.Strings(hk)
			for _, k := range hk {
				if k == "alloc" {
					old := st.m["alloc"]
					st.m["alloc"] = e.fresh("alloc", SInt)
					e.assume(g, app("<=", old, st.m["alloc"]))
					continue
				}
				e.heapKey(st, k, heapKeys[k])
				st.m[k] = e.fresh("lh."+k, heapKeys[k])
			}
			var pk []string
			for k := range e.loopPointKeys {
				if _, whole := heapKeys[k]; !whole {
					pk = append(pk, k)
				}
			}
			sort.Strings(pk)
			for _, k := range pk {
				cur := e.heapKey(st, k, "(Array Int "+e.loopPointSort[k]+")")
				for _, r := range e.loopPointKeys[k] {
					cur = app("store", cur, r, e.fresh("lp."+k, e.loopPointSort[k]))
				}
				n := e.fresh("lh."+k, "(Array Int "+e.loopPointSort[k]+")")
				e.def(eq(n, cur))
				st.m[k] = n
			}
		}
		for _, k := range keys {
			hv := false
			switch {
			case k == "gen" || k == "alloc" || isHeapKey(k) || strings.HasPrefix(k, "mon:") || strings.HasPrefix(k, "defer:"):
			case strings.HasPrefix(k, "c:"):
				for a := range cells {
					if strings.HasPrefix(k, "c:"+a.Name()+":") {
						hv = true
					}
				}
			case strings.HasPrefix(k, "it:"):
				for it := range iters {
					if k == "it:"+it.Name() || k == "it:"+it.Name()+":n" {
						hv = true
					}
				}
			}
			if hv {
				st.m[k] = e.fresh("lh."+k, e.sortOfKey(k))
				if strings.HasPrefix(k, "c:") {
					for a := range cells {
						if strings.HasPrefix(k, "c:"+a.Name()+":") {
							j, _ := strconv.Atoi(k[strings.LastIndex(k, ":")+1:])
							if strOffsetIdx(e.cellT[a])[j] {
								st.m[k] = "0"
							}
						}
					}
				}
			}
		}
		// read-only slice literals keep their contents
		for _, ro := range e.roArrays {
			r, ok := e.regs[ro.a]
			if !ok {
				continue
			}
			for j, so := range flatten(ro.elemT) {
				k := elemKey(ro.elemT, j)
				s2 := "(Array Int (Array Int " + so + "))"
				if _, had := li.entry.m[k]; !had {
					continue
				}
				nm := e.heapKey(st, k, s2)
				om := li.entry.m[k]
				e.assume(g, eq(app("select", nm, r.C[0]), app("select", om, r.C[0])))
			}
		}
		// type facts for havoced cells
		for a := range cells {
			if _, ok := st.m[cellKey(a, 0)]; ok {
				e.assume(g, e.typeFacts(e.cellGet(st, a)))
				e.assume(g, e.allocatedFacts(st, e.cellGet(st, a)))
				e.assume(g, e.inputBound(e.cellGet(st, a)))
			}
		}
		for it := range iters {
			if p, ok := st.m["it:"+it.Name()]; ok {
				if s, isStr := e.iterStr[it]; isStr {
					e.assume(g, and(app("<=", "0", p), app("<=", p, s.C[2])))
				} else if n, ok := st.m["it:"+it.Name()+":n"]; ok {
					e.assume(g, app("<=", "0", n))
				}
			}
		}
		hc0 := &blockState{e: e, b: b, g: g, st: st}
		_ = hc0
		// locations outside the modifies clause keep their entry values at old references: an implicit
		// loop invariant (the loop havoc would otherwise forget it, and the exit frame obligation
		// demands it anyway)
		if cov, all, active := e.frameCovered(); active && !all && !heapAll {
			var fk []string
			for k := range heapKeys {
				if k != "alloc" && !cov[k] {
					fk = append(fk, k)
				}
			}
			for k := range e.loopPointKeys {
				if _, whole := heapKeys[k]; !whole && !cov[k] {
					fk = append(fk, k)
				}
			}
			sort.Strings(fk)
			li.frameKeys = fk
			for _, k := range fk {
				if t, ok := e.framedTerm(li.entry, k); ok {
					e.assert(g, fmt.Sprintf("loop%d.init.%s", li.ord, frameName(k)), "frame", t, "not in the modifies clause: "+k, b.Instrs[0].Pos())
				}
				if t, ok := e.framedTerm(st, k); ok {
					e.assume(g, t)
				}
			}
		}
		li.head = st.clone()
		hc := e.ctx(st, fmt.Sprintf("loop %d invariant", li.ord))
		e.loopPos(hc, li)
		hc.LoopEntry = entryCtx
		for _, inv := range li.spec.Inv {
			e.assume(g, hc.boolT(inv.Expr))
		}
		if li.spec.Dec != nil {
			li.decH = e.fresh(fmt.Sprintf("dec%d", li.ord), SInt)
			e.def(eq(li.decH, hc.intT(li.spec.Dec.Expr)))
		}
		nb := &blockState{e: e, b: b, g: g, st: st}
		nb.monNewSegment()
	}
	bs := &blockState{e: e, b: b, g: g, st: st}
	for _, ins := range b.Instrs {
		bs.instr(ins)
		if bs.dead {
			break
		}
	}
}

func (e *Enc) addEdge(from, to *ssa.BasicBlock, guard string, st *State) {
	if e.backEdge(from, to) {
		li := e.loops[to]
		entryCtx := e.ctx(li.entry, fmt.Sprintf("loop %d entry", li.ord))
		e.loopPos(entryCtx, li)
		c := e.ctx(st, fmt.Sprintf("loop %d preserve", li.ord))
		e.loopPos(c, li)
		c.LoopEntry = entryCtx
		pos := from.Instrs[len(from.Instrs)-1].Pos()
		li.nback++
		sfx := ""
		if li.nback > 1 {
			sfx = fmt.Sprintf("~%d", li.nback)
		}
		sb := &blockState{e: e, b: from, g: guard, st: st}
		sb.monSegment(fmt.Sprintf("loop%d.back%s", li.ord, sfx), from.Instrs[len(from.Instrs)-1])
		guard = sb.g
		for i, inv := range li.spec.Inv {
			e.assert(guard, fmt.Sprintf("loop%d.preserve.%s%s", li.ord, clauseName(inv, i), sfx), "inv", c.boolT(inv.Expr), inv.Src, pos)
		}
		for _, k := range li.frameKeys {
			if t, ok := e.framedTerm(st, k); ok {
				e.assert(guard, fmt.Sprintf("loop%d.preserve.%s%s", li.ord, frameName(k), sfx), "frame", t, "not in the modifies clause: "+k, pos)
			}
		}
		if li.spec.Dec != nil {
			m := c.intT(li.spec.Dec.Expr)
			e.assert(guard, fmt.Sprintf("loop%d.decreases%s", li.ord, sfx), "dec", and(app("<=", "0", li.decH), app("<", m, li.decH)), li.spec.Dec.Src, pos)
		}
		e.items = append(e.items, Item{Kind: IAssert, Guard: guard, Term: "false", Name: fmt.Sprintf("%s#canary.loop%d.body%s", e.key, li.ord, sfx), Canary: true, Class: "canary", Blk: from})
		return
	}
	e.inEdges[to] = append(e.inEdges[to], edge{guard: guard, st: st.clone(), from: from})
}

// finish: exit block with postconditions; exceptional exit.
func (e *Enc) finish() {
	fn := e.fn
	results := fn.Signature.Results()
	if len(e.exits) > 0 {
		sort.SliceStable(e.exits, func(i, j int) bool { return e.exits[i].from.Index < e.exits[j].from.Index })
		var in []edge
		// results become pseudo state keys so that merge handles them
		for _, ex := range e.exits {
			s := ex.st
			k := 0
			for i, r := range ex.rets {
				for j, c := range r.C {
					key := fmt.Sprintf("r:%d:%d", i, j)
					e.sorts[key] = flatten(results.At(i).Type())[j]
					s.m[key] = c
					k++
				}
			}
			in = append(in, edge{guard: ex.guard, st: s})
			_ = k
		}
		for i, ex := range e.exits {
			var pos token.Pos
			if ex.from != nil {
				for _, ins := range ex.from.Instrs {
					if r, ok := ins.(*ssa.Return); ok {
						pos = r.Pos()
					}
				}
			}
			e.items = append(e.items, Item{Kind: IAssert, Guard: ex.guard, Term: "false", Name: fmt.Sprintf("%s#canary.return%d", e.key, i+1), Canary: true, Class: "canary", Pos: pos, Blk: ex.from})
		}
		g, st := e.merge("exit", in)
		for i := 0; i < results.Len(); i++ {
			v := Val{T: results.At(i).Type()}
			for j := range flatten(v.T) {
				v.C = append(v.C, st.m[fmt.Sprintf("r:%d:%d", i, j)])
			}
			if e.spec != nil && i < len(e.spec.Results) {
				e.paramVals[e.spec.Results[i].Name] = v
			}
		}
		xb := &blockState{e: e, b: e.fn.Blocks[0], g: g, st: st}
		if len(e.W.Specs.Monitors) > 0 && e.mon != nil || (e.spec != nil && e.spec.Holds != "") {
			want := "false"
			if e.spec != nil && e.spec.Holds != "" {
				want = "true"
			}
			xb.assertG("exit.lockstate", "mon", eq(xb.held(), want), "lock state at return differs from the contract (holds)", e.fn.Blocks[0].Instrs[0])
		}
		xb.ghostAt("exit", e.fn.Blocks[0].Instrs[0], nil)
		if e.frameRecv != nil {
			now := e.loadPtr(st, e.frameRecvT, e.frameRecv.C[0])
			was := e.loadPtr(e.entrySt, e.frameRecvT, e.frameRecv.C[0])
			xb.assertG("post.receiver-is-a-copy", "post", valEq(now, was), "the contract declares a value receiver: the caller's object must be unchanged", e.fn.Blocks[0].Instrs[0])
		}
		if e.spec != nil && e.spec.Holds != "" {
			xb.monSegment("exit", e.fn.Blocks[0].Instrs[0])
		}
		g = xb.g
		c := e.ctx(st, "ensures")
		for i := 0; i < results.Len(); i++ {
			v := Val{T: results.At(i).Type()}
			for j := range flatten(v.T) {
				v.C = append(v.C, st.m[fmt.Sprintf("r:%d:%d", i, j)])
			}
			if e.spec != nil && i < len(e.spec.Results) {
				c.Vars[e.spec.Results[i].Name] = v
			}
			c.Vars[fmt.Sprintf("res%d", i)] = v
		}
		if e.spec != nil {
			for i, en := range e.spec.Ensures {
				e.assert(g, "post."+clauseName(en, i), "post", c.boolT(en.Expr), en.Src, fn.Pos())
			}
			e.frameObligations(g, st)
		}
	}
	if len(e.panics) > 0 && e.spec != nil && len(e.spec.XEnsures) > 0 {
		// one obligation per panic site: failures name the site
		for k, p := range e.panics {
			c := e.ctx(p.st, "ensures_on_panic")
			pos := fn.Pos()
			if p.from != nil && len(p.from.Instrs) > 0 {
				for _, ins := range p.from.Instrs {
					if ins.Pos().IsValid() {
						pos = ins.Pos()
					}
				}
			}
			for i, en := range e.spec.XEnsures {
				e.assert(p.guard, fmt.Sprintf("xpost.%s@%d", clauseName(en, i), k+1), "xpost", c.boolT(en.Expr), en.Src, pos)
			}
		}
	}
}

// frameObligations: the modifies clause is proved, not assumed. Every heap, ghost and global location
// that existed at entry and is not named by the clause has its entry value at every normal exit.
// (Objects allocated by the function are not part of the caller's frame; a closure may assign the
// captured variables it writes.)
func (e *Enc) frameObligations(g string, st *State) {
	covered, all, active := e.frameCovered()
	if !active || all {
		return
	}
	pos := e.fn.Pos()
	if hv, ok := st.m["hv:all"]; ok && hv != "false" {
		e.assert(g, "frame.all", "frame", not(hv), "the function (or a loop it cannot summarise) may modify any location: its contract must say `modifies all`", pos)
	}
	var keys []string
	for k := range st.m {
		if (isHeapKey(k) || k == "alloc") && !covered[k] {
			keys = append(keys, k)
		}
	}
	sort.Strings(keys)
	for _, k := range keys {
		t, ok := e.framedTerm(st, k)
		if !ok {
			continue
		}
		e.assert(g, frameName(k), "frame", t, "not in the modifies clause: "+k, pos)
	}
}

func frameName(k string) string {
	return "frame." + sanitize(strings.TrimSuffix(strings.TrimPrefix(strings.TrimPrefix(strings.TrimPrefix(strings.TrimPrefix(k, "h:"), "g:"), "p:"), "m:"), ":0"))
}

// frameCovered: the state keys the function's modifies clause names (all: `modifies all`);
// active is false for functions whose body is not checked.
func (e *Enc) frameCovered() (covered map[string]bool, all bool, active bool) {
	if e.spec == nil || e.spec.Trusted || e.spec.NoBody {
		return nil, false, false
	}
	covered = map[string]bool{"alloc": true} // allocating is never a frame violation
	for _, m := range e.spec.Modifies {
		switch {
		case m == "all":
			all = true
		case m == "nothing" || m == "":
		case m == "alloc":
			covered["alloc"] = true
		case strings.HasPrefix(m, "*"):
			// the object a parameter points to: its type's locations (over-approximation of the frame)
			v, ok := e.paramVals[m[1:]]
			if !ok {
				panic(contractMismatch{"modifies " + m + ": no such parameter"})
			}
			t := v.T
			if _, isI := t.Underlying().(*types.Interface); isI {
				all = true
				break
			}
			if p, ok := t.Underlying().(*types.Pointer); ok {
				e.objectKeys(p.Elem(), covered)
			} else {
				all = true
			}
		case strings.HasPrefix(m, "map:"):
			for _, ks := range e.resolveMapItem(strings.TrimPrefix(m, "map:")) {
				covered[ks[0]] = true
			}
		default:
			for _, ks := range e.resolveHeapItem(m) {
				covered[ks[0]] = true
			}
		}
	}
	// a function that takes a monitor's lock (or is entered holding it) lets other threads run:
	// everything the monitor protects or owns, and the shared fields, may change
	if !all && (e.mon != nil || e.spec.Holds != "" || e.spec.Thread == "any") {
		for _, m := range e.W.Specs.Monitors {
			if e.mon != nil || e.spec.Holds != "" {
				for _, ks := range e.monKeys(m) {
					covered[ks[0]] = true
				}
			}
			for _, p := range m.Shared {
				for _, ks := range e.resolveHeapItem(p) {
					covered[ks[0]] = true
				}
			}
		}
	}
	return covered, all, true
}

// framedTerm: location k has, in state st, its entry value at every reference that existed at entry
// (a closure may assign the captured variables it writes). ok is false when nothing changed.
func (e *Enc) framedTerm(st *State, k string) (string, bool) {
	so := e.sortOfKey(k)
	now, has := st.m[k]
	if !has {
		return "", false
	}
	was := e.heapKey(e.entrySt, k, so)
	if now == was {
		return "", false
	}
	if k == "alloc" || strings.HasPrefix(k, "g:") {
		return eq(now, was), true
	}
	alloc0 := e.entrySt.m["alloc"]
	r := e.freshName("fr")
	oldref := or(and(app("<", "0", r), app("<", r, alloc0)),
		and(app("<", r, "0"), app("<", "0", app("subBase", r)), app("<", app("subBase", r), alloc0)),
		and(app("<", r, "0"), app("<", app("subBase", r), "0"), app("<", "0", app("subBase", app("subBase", r))), app("<", app("subBase", app("subBase", r)), alloc0)))
	conds := []string{oldref}
	for _, fv := range e.fn.FreeVars {
		if closureWrites(e.fn, fv) {
			et := fv.Type().Underlying().(*types.Pointer).Elem()
			tmp := map[string]bool{}
			e.objectKeys(et, tmp)
			if tmp[k] {
				conds = append(conds, not(eq(r, e.regs[fv].C[0])))
			}
		}
	}
	return fmt.Sprintf("(forall ((%s Int)) (! (=> %s (= (select %s %s) (select %s %s))) :pattern ((select %s %s))))", r, and(conds...), now, r, was, r, now, r), true
}

// objectKeys adds the state keys that hold an object of type t.
func (e *Enc) objectKeys(t types.Type, out map[string]bool) {
	st, ok := t.Underlying().(*types.Struct)
	if !ok {
		for j := range flatten(t) {
			out[ptrKey(t, j)] = true
		}
		return
	}
	for i := 0; i < st.NumFields(); i++ {
		ft := st.Field(i).Type()
		if _, nested := ft.Underlying().(*types.Struct); nested {
			e.objectKeys(ft, out)
			continue
		}
		for j := range flatten(ft) {
			out[fieldKey(t, i, j)] = true
		}
	}
}

// objectKeySorts adds the state keys (with sorts) that hold an object of type t.
func (e *Enc) objectKeySorts(t types.Type, out map[string]string) {
	st, ok := t.Underlying().(*types.Struct)
	if !ok {
		for j, so := range flatten(t) {
			out[ptrKey(t, j)] = "(Array Int " + so + ")"
		}
		return
	}
	for i := 0; i < st.NumFields(); i++ {
		ft := st.Field(i).Type()
		if _, nested := ft.Underlying().(*types.Struct); nested {
			e.objectKeySorts(ft, out)
			continue
		}
		if _, isArr := ft.Underlying().(*types.Array); isArr {
			e.objectKeySorts(ft, out)
			continue
		}
		for j, so := range flatten(ft) {
			out[fieldKey(t, i, j)] = "(Array Int " + so + ")"
		}
	}
}
