package main

// Runtime-assertion checking: contracts compiled to Go and evaluated around the
// real function (DESIGN.md 5.2, 5.3). Used only to attach a failing input to an
// obligation that already failed, and for the bounded function-level fallback.

import (
	"encoding/json"
	"fmt"
	"go/ast"
	"go/token"
	"os"
	"os/exec"
	"path/filepath"
	"sort"
	"strconv"
	"strings"
)

type goGen struct {
	w     *World
	used  map[string]bool
	types map[string]string // variable -> go type (string|int|bool)
}

func goType(t string) string {
	switch strings.TrimSpace(t) {
	case "string", "Pattern", "Ref", "SoftRef":
		return "string"
	case "bool":
		return "bool"
	case "[]byte":
		return "string"
	}
	return "int"
}

// typeOf infers the Go type (string/int/bool) of a contract expression.
func (g *goGen) typeOf(x ast.Expr) string {
	switch x := x.(type) {
	case *ast.ParenExpr:
		return g.typeOf(x.X)
	case *ast.BasicLit:
		if x.Kind == token.STRING {
			return "string"
		}
		return "int"
	case *ast.Ident:
		if x.Name == "true" || x.Name == "false" {
			return "bool"
		}
		if t, ok := g.types[x.Name]; ok {
			return t
		}
		return "int"
	case *ast.UnaryExpr:
		if x.Op == token.NOT {
			return "bool"
		}
		return "int"
	case *ast.BinaryExpr:
		switch x.Op {
		case token.LAND, token.LOR, token.EQL, token.NEQ, token.LSS, token.LEQ, token.GTR, token.GEQ:
			return "bool"
		}
		return "int"
	case *ast.IndexExpr:
		return "int"
	case *ast.SliceExpr:
		return "string"
	case *ast.CallExpr:
		if id, ok := x.Fun.(*ast.Ident); ok {
			switch id.Name {
			case "forall", "exists", "imp", "iff", "isNil", "freshbytes", "same", "bytesframe":
				return "bool"
			case "len", "int", "byte", "rune":
				return "int"
			case "string", "Pattern", "bytes", "Ref", "SoftRef":
				return "string"
			case "ite":
				return g.typeOf(x.Args[1])
			case "old", "loopentry":
				return g.typeOf(x.Args[0])
			}
			if sf, ok := g.w.Specs.SpecFuncs[id.Name]; ok {
				return goType(sf.Ret)
			}
		}
	}
	return "int"
}

func (g *goGen) expr(x ast.Expr) string {
	switch x := x.(type) {
	case *ast.ParenExpr:
		return "(" + g.expr(x.X) + ")"
	case *ast.BasicLit:
		if x.Kind == token.CHAR {
			return "int(" + x.Value + ")"
		}
		return x.Value
	case *ast.Ident:
		return x.Name
	case *ast.UnaryExpr:
		return x.Op.String() + "(" + g.expr(x.X) + ")"
	case *ast.BinaryExpr:
		return "(" + g.expr(x.X) + " " + x.Op.String() + " " + g.expr(x.Y) + ")"
	case *ast.IndexExpr:
		return "vAt(" + g.expr(x.X) + ", " + g.expr(x.Index) + ")"
	case *ast.SliceExpr:
		lo, hi := "0", "-1"
		if x.Low != nil {
			lo = g.expr(x.Low)
		}
		if x.High != nil {
			hi = g.expr(x.High)
		}
		return "vSlice(" + g.expr(x.X) + ", " + lo + ", " + hi + ")"
	case *ast.CallExpr:
		id, ok := x.Fun.(*ast.Ident)
		if !ok {
			panic("rac: unsupported call " + exprString(x))
		}
		switch id.Name {
		case "len":
			return "len(" + g.expr(x.Args[0]) + ")"
		case "string", "Pattern", "bytes", "Ref", "SoftRef":
			return "string(" + g.expr(x.Args[0]) + ")"
		case "int", "byte", "rune":
			return "int(" + g.expr(x.Args[0]) + ")"
		case "imp":
			return "(!(" + g.expr(x.Args[0]) + ") || (" + g.expr(x.Args[1]) + "))"
		case "iff":
			return "((" + g.expr(x.Args[0]) + ") == (" + g.expr(x.Args[1]) + "))"
		case "ite":
			t := g.typeOf(x.Args[1])
			return fmt.Sprintf("func() %s { if %s { return %s }; return %s }()", t, g.expr(x.Args[0]), g.expr(x.Args[1]), g.expr(x.Args[2]))
		case "forall", "exists":
			v := x.Args[0].(*ast.Ident).Name
			init, brk, fin := "true", "!("+g.expr(x.Args[3])+")", "false"
			if id.Name == "exists" {
				init, brk, fin = "false", g.expr(x.Args[3]), "true"
			}
			return fmt.Sprintf("func() bool { for %s := %s; %s < %s; %s++ { if %s { return %s } }; return %s }()", v, g.expr(x.Args[1]), v, g.expr(x.Args[2]), v, brk, fin, init)
		case "old":
			return g.expr(x.Args[0]) // pure inputs only
		case "isNil":
			return "(" + g.expr(x.Args[0]) + " == 0)"
		case "freshbytes", "same", "bytesframe":
			if id.Name == "same" {
				return "(" + g.expr(x.Args[0]) + " == " + g.expr(x.Args[1]) + ")"
			}
			return "true"
		}
		if _, ok := g.w.Specs.SpecFuncs[id.Name]; ok {
			g.use(id.Name)
			var as []string
			for _, a := range x.Args {
				as = append(as, g.expr(a))
			}
			return "spec_" + id.Name + "(" + strings.Join(as, ", ") + ")"
		}
		panic("rac: unknown function " + id.Name)
	}
	panic(fmt.Sprintf("rac: unsupported expression %T", x))
}

func (g *goGen) use(name string) {
	if g.used[name] {
		return
	}
	g.used[name] = true
}

// specFuncsGo renders the used spec functions (transitively) as Go.
func (g *goGen) specFuncsGo() string {
	var b strings.Builder
	done := map[string]bool{}
	for {
		progress := false
		var names []string
		for n := range g.used {
			names = append(names, n)
		}
		sort.Strings(names)
		for _, n := range names {
			if done[n] {
				continue
			}
			done[n] = true
			progress = true
			sf := g.w.Specs.SpecFuncs[n]
			if sf.Uninterp {
				if sf.Native == "" {
					panic("rac: uninterpreted spec function " + n)
				}
				var ps []string
				for _, p := range sf.Params {
					ps = append(ps, p.Name+" "+goType(p.Type))
				}
				fmt.Fprintf(&b, "func spec_%s(%s) %s {\n\treturn %s\n}\n\n", n, strings.Join(ps, ", "), goType(sf.Ret), sf.Native)
				continue
			}
			saved := g.types
			g.types = map[string]string{}
			var ps []string
			for _, p := range sf.Params {
				g.types[p.Name] = goType(p.Type)
				ps = append(ps, p.Name+" "+goType(p.Type))
			}
			body := g.expr(sf.Body)
			g.types = saved
			fmt.Fprintf(&b, "func spec_%s(%s) %s {\n\treturn %s\n}\n\n", n, strings.Join(ps, ", "), goType(sf.Ret), body)
		}
		if !progress {
			break
		}
	}
	return b.String()
}

const racHelpers = `
func vAt(s string, i int) int {
	if i < 0 || i >= len(s) {
		return 0
	}
	return int(s[i])
}

func vSlice(s string, lo, hi int) string {
	if hi < 0 {
		hi = len(s)
	}
	if lo < 0 || hi > len(s) || lo > hi {
		return ""
	}
	return s[lo:hi]
}

func verifJSON(s string) string {
	b, _ := json.Marshal(s)
	return string(b)
}

func vStrings(alpha string, max int, f func(string) bool) bool {
	var rec func(prefix []byte) bool
	rec = func(prefix []byte) bool {
		if !f(string(prefix)) {
			return false
		}
		if len(prefix) == max {
			return true
		}
		for i := 0; i < len(alpha); i++ {
			if !rec(append(prefix, alpha[i])) {
				return false
			}
		}
		return true
	}
	return rec(nil)
}
`

// racable reports whether a contract can be compiled to a runtime check:
// parameters and results of string-like/int/bool types only.
func racable(spec *FuncSpec) bool {
	ok := func(t string) bool {
		switch strings.TrimSpace(t) {
		case "string", "Pattern", "Ref", "SoftRef", "int", "bool", "byte", "rune":
			return true
		}
		return false
	}
	for _, p := range spec.Params {
		if !ok(p.Type) {
			return false
		}
	}
	for _, p := range spec.Results {
		if !ok(p.Type) && strings.TrimSpace(p.Type) != "[]byte" && strings.TrimSpace(p.Type) != "error" {
			return false
		}
	}
	return len(spec.Results) > 0
}

type racInput map[string]string // param name -> Go literal

// genReplay builds an in-package test that evaluates requires/ensures around
// the real function, either on given inputs or over the replay domain.
func genReplay(w *World, spec *FuncSpec, pkgName string, inputs []racInput, alpha string, maxLen int) string {
	g := &goGen{w: w, used: map[string]bool{}, types: map[string]string{}}
	for _, p := range spec.Params {
		g.types[p.Name] = goType(p.Type)
	}
	for _, r := range spec.Results {
		g.types[r.Name] = goType(r.Type)
	}
	var req, ens []string
	for _, r := range spec.Requires {
		req = append(req, g.expr(r.Expr))
	}
	type ensC struct{ label, code, src string }
	var ensCs []ensC
	for i, e := range spec.Ensures {
		// clauses mentioning error results are skipped unless simple
		ensCs = append(ensCs, ensC{clauseName(e, i), g.expr(e.Expr), e.Src})
		ens = append(ens, g.expr(e.Expr))
	}
	name := spec.Key[strings.LastIndex(spec.Key, ".")+1:]
	// call expression
	var args []string
	call := ""
	params := spec.Params
	if spec.RecvName != "" {
		rt := strings.TrimPrefix(params[0].Type, "*")
		call = rt + "(" + params[0].Name + ")." + name
		params = params[1:]
	} else {
		call = name
	}
	for _, p := range params {
		switch strings.TrimSpace(p.Type) {
		case "string", "int", "bool":
			args = append(args, p.Name)
		default:
			args = append(args, p.Type+"("+p.Name+")")
		}
	}
	var resNames, resConv []string
	for _, r := range spec.Results {
		resNames = append(resNames, "raw_"+r.Name)
		switch goType(r.Type) {
		case "string":
			resConv = append(resConv, fmt.Sprintf("%s := string(raw_%s)", r.Name, r.Name))
		case "bool":
			resConv = append(resConv, fmt.Sprintf("%s := raw_%s", r.Name, r.Name))
		default:
			if strings.TrimSpace(r.Type) == "error" {
				resConv = append(resConv, fmt.Sprintf("%s := 0; if raw_%s != nil { %s = 1 }", r.Name, r.Name, r.Name))
			} else {
				resConv = append(resConv, fmt.Sprintf("%s := int(raw_%s)", r.Name, r.Name))
			}
		}
	}
	var b strings.Builder
	fmt.Fprintf(&b, "package %s\n\nimport (\n\t\"encoding/json\"\n\t\"fmt\"\n\t\"testing\"\n)\n\nvar _ = fmt.Sprint\nvar _ = json.Marshal\n", pkgName)
	b.WriteString(racHelpers)
	// check function
	var ps []string
	for _, p := range spec.Params {
		ps = append(ps, p.Name+" "+goType(p.Type))
	}
	fmt.Fprintf(&b, "\n// verifCheck returns \"\" if the contract holds on this input (or the precondition is false).\nfunc verifCheck(%s) (msg string) {\n", strings.Join(ps, ", "))
	if len(req) > 0 {
		fmt.Fprintf(&b, "\tif !(%s) {\n\t\treturn \"\"\n\t}\n", strings.Join(req, " && "))
	}
	var inDesc []string
	for _, p := range spec.Params {
		inDesc = append(inDesc, p.Name+"=%q")
	}
	var inArgs []string
	for _, p := range spec.Params {
		if goType(p.Type) == "string" {
			inArgs = append(inArgs, p.Name)
		} else {
			inArgs = append(inArgs, "fmt.Sprint("+p.Name+")")
		}
	}
	fmt.Fprintf(&b, "\tdefer func() {\n\t\tif r := recover(); r != nil {\n\t\t\tmsg = fmt.Sprintf(\"PANIC %%v on %s\", r, %s)\n\t\t}\n\t}()\n", strings.Join(inDesc, " "), strings.Join(inArgs, ", "))
	fmt.Fprintf(&b, "\t%s := %s(%s)\n", strings.Join(resNames, ", "), call, strings.Join(args, ", "))
	for _, rc := range resConv {
		fmt.Fprintf(&b, "\t%s\n", rc)
	}
	for _, r := range spec.Results {
		fmt.Fprintf(&b, "\t_ = %s\n", r.Name)
	}
	for _, ec := range ensCs {
		var resDesc []string
		var resArgs []string
		for _, r := range spec.Results {
			resDesc = append(resDesc, r.Name+"=%v")
			resArgs = append(resArgs, r.Name)
		}
		fmt.Fprintf(&b, "\tif !(%s) {\n\t\treturn fmt.Sprintf(\"ensures %s violated on %s: got %s\", %s, %s)\n\t}\n", ec.code, ec.label, strings.Join(inDesc, " "), strings.Join(resDesc, " "), strings.Join(inArgs, ", "), strings.Join(resArgs, ", "))
	}
	b.WriteString("\treturn \"\"\n}\n\n")
	b.WriteString(g.specFuncsGo())
	// driver
	b.WriteString("func TestVerifReplay(t *testing.T) {\n\tn := 0\n")
	for _, in := range inputs {
		var as []string
		for _, p := range spec.Params {
			as = append(as, in[p.Name])
		}
		fmt.Fprintf(&b, "\tn++\n\tif m := verifCheck(%s); m != \"\" {\n\t\tt.Fatalf(\"VERIF-REPLAY-FAIL %%s\", m)\n\t}\n", strings.Join(as, ", "))
	}
	if alpha != "" {
		// exhaustive enumeration of string parameters; ints from -1..maxLen+1; bools both
		depth := 0
		var closers []string
		for _, p := range spec.Params {
			switch goType(p.Type) {
			case "string":
				fmt.Fprintf(&b, "%svStrings(%q, %d, func(%s string) bool {\n", strings.Repeat("\t", depth+1), alpha, maxLen, p.Name)
				closers = append(closers, strings.Repeat("\t", depth+1)+"return !t.Failed()\n"+strings.Repeat("\t", depth+1)+"})\n")
			case "int":
				fmt.Fprintf(&b, "%sfor %s := -1; %s <= %d; %s++ {\n", strings.Repeat("\t", depth+1), p.Name, p.Name, maxLen+1, p.Name)
				closers = append(closers, strings.Repeat("\t", depth+1)+"}\n")
			case "bool":
				fmt.Fprintf(&b, "%sfor _, %s := range []bool{false, true} {\n", strings.Repeat("\t", depth+1), p.Name)
				closers = append(closers, strings.Repeat("\t", depth+1)+"}\n")
			}
			depth++
		}
		var as []string
		for _, p := range spec.Params {
			as = append(as, p.Name)
		}
		ind := strings.Repeat("\t", depth+1)
		fmt.Fprintf(&b, "%sn++\n%sif m := verifCheck(%s); m != \"\" && !t.Failed() {\n%s\tt.Errorf(\"VERIF-REPLAY-FAIL %%s\", m)\n%s}\n", ind, ind, strings.Join(as, ", "), ind, ind)
		for i := len(closers) - 1; i >= 0; i-- {
			b.WriteString(closers[i])
		}
	}
	b.WriteString("\tt.Logf(\"VERIF-REPLAY-CASES %d\", n)\n}\n")
	return b.String()
}

// runReplay injects the test into the package with -overlay and runs it.
func runReplay(repo, pkgRel, src string, timeoutSecs int) (failed bool, out string, cases int) {
	dir, err := os.MkdirTemp("", "govc-replay")
	if err != nil {
		panic(err)
	}
	defer os.RemoveAll(dir)
	tf := filepath.Join(dir, "zz_verif_replay_test.go")
	os.WriteFile(tf, []byte(src), 0o644)
	target := filepath.Join(repo, pkgRel, "zz_verif_replay_test.go")
	ov, _ := json.Marshal(map[string]interface{}{"Replace": map[string]string{target: tf}})
	ovf := filepath.Join(dir, "ov.json")
	os.WriteFile(ovf, ov, 0o644)
	cmd := exec.Command("go", "test", "-overlay", ovf, "-vet=off", "-count=1", "-v", "-timeout", fmt.Sprintf("%ds", timeoutSecs), "-run", "^TestVerifReplay$", ".")
	cmd.Dir = filepath.Join(repo, pkgRel)
	cmd.Env = append(os.Environ(), "GOFLAGS=-mod=mod", "GOPROXY=off", "GOSUMDB=off", "GOTOOLCHAIN=local")
	bo, err := cmd.CombinedOutput()
	out = string(bo)
	if i := strings.Index(out, "VERIF-REPLAY-CASES "); i >= 0 {
		f := strings.Fields(out[i:])
		if len(f) > 1 {
			cases, _ = strconv.Atoi(f[1])
		}
	}
	failed = strings.Contains(out, "VERIF-REPLAY-FAIL") || strings.Contains(out, "panic:")
	if err != nil && !failed && !strings.Contains(out, "ok") {
		// build failure or timeout
		out = "REPLAY-ERROR: " + out
	}
	return
}

// modelInputs turns a solver model into Go literals for the function's parameters.
func modelInputs(e *Enc, spec *FuncSpec, model map[string]string) (racInput, bool) {
	in := racInput{}
	for i, p := range e.fn.Params {
		if i >= len(spec.Params) {
			return nil, false
		}
		v := e.regs[p]
		name := spec.Params[i].Name
		switch {
		case isString(v.T):
			n, err := strconv.Atoi(model[v.C[2]])
			if err != nil || n < 0 || n > 24 {
				return nil, false
			}
			bs := make([]byte, n)
			for k := 0; k < n; k++ {
				x, err := strconv.Atoi(model[fmt.Sprintf("(select %s (+ %s %d))", v.C[0], v.C[1], k)])
				if err != nil || x < 0 || x > 255 {
					return nil, false
				}
				bs[k] = byte(x)
			}
			in[name] = strconv.Quote(string(bs))
		case isInteger(v.T):
			x, ok := model[v.C[0]]
			if !ok {
				return nil, false
			}
			in[name] = x
		case isBool(v.T):
			x, ok := model[v.C[0]]
			if !ok {
				return nil, false
			}
			in[name] = x
		default:
			return nil, false
		}
	}
	return in, true
}
