package main

import (
	"fmt"
	"go/types"
	"math/big"
	"strings"

	"golang.org/x/tools/go/ssa"
)

func parseLit(s string) *big.Int {
	neg := false
	if strings.HasPrefix(s, "(- ") {
		neg = true
		s = strings.TrimSuffix(strings.TrimPrefix(s, "(- "), ")")
	}
	n, _ := new(big.Int).SetString(s, 10)
	if neg {
		n.Neg(n)
	}
	return n
}

// funcKey gives the contract key of an SSA function.
func funcKey(f *ssa.Function) string {
	if f == nil {
		return ""
	}
	if f.Parent() != nil {
		// anonymous function: parentKey$N
		name := f.Name() // e.g. executeHandler$1
		pk := funcKey(f.Parent())
		i := strings.LastIndex(name, "$")
		return pk + name[i:]
	}
	pkg := ""
	if f.Pkg != nil {
		pkg = f.Pkg.Pkg.Name()
	} else if f.Object() != nil && f.Object().Pkg() != nil {
		pkg = f.Object().Pkg().Name()
	}
	if recv := f.Signature.Recv(); recv != nil {
		t := recv.Type()
		if p, ok := t.(*types.Pointer); ok {
			t = p.Elem()
		}
		if n, ok := t.(*types.Named); ok {
			if n.Obj().Pkg() != nil {
				pkg = n.Obj().Pkg().Name()
			}
			return pkg + "." + n.Obj().Name() + "." + f.Name()
		}
		return pkg + "." + sanitize(t.String()) + "." + f.Name()
	}
	return pkg + "." + f.Name()
}

func (bs *blockState) call(x *ssa.Call) {
	e := bs.e
	c := x.Call
	if c.IsInvoke() {
		bs.invoke(x)
		return
	}
	switch f := c.Value.(type) {
	case *ssa.Builtin:
		bs.builtin(x, f)
		return
	case *ssa.Function:
		if f.Pkg != nil && f.Pkg.Pkg.Path() == "sync/atomic" {
			bs.atomicCall(x, f)
			return
		}
		if bs.monCall(f, c.Args, x) {
			return
		}
		var args []Val
		for _, a := range c.Args {
			args = append(args, bs.val(a))
		}
		res := bs.callStatic(f, args, x, x.Type())
		if x.Type() != nil {
			e.regs[x] = res
		}
		return
	case *ssa.MakeClosure:
		bs.callClosure(x, f)
		return
	}
	bs.callFuncValue(x)
}

func (bs *blockState) builtin(x *ssa.Call, f *ssa.Builtin) {
	e := bs.e
	args := x.Call.Args
	switch f.Name() {
	case "ssa:deferstack":
		e.regs[x] = Val{x.Type(), []string{"0"}}
	case "len":
		v := bs.val(args[0])
		t := args[0].Type()
		switch {
		case isString(t):
			e.regs[x] = Val{x.Type(), []string{v.C[2]}}
		default:
			switch t.Underlying().(type) {
			case *types.Slice:
				e.regs[x] = Val{x.Type(), []string{v.C[2]}}
			case *types.Map:
				bs.setReg(x, Val{x.Type(), []string{e.mapCard(bs.st, v)}})
			default:
				unsupp("len of %s", t)
			}
		}
	case "cap":
		v := bs.val(args[0])
		e.regs[x] = Val{x.Type(), []string{v.C[3]}}
	case "copy":
		bs.copyBuiltin(x)
	case "append":
		bs.appendBuiltin(x)
	case "delete":
		bs.mapDelete(x)
	case "recover":
		bs.recoverBuiltin(x)
	case "close":
		// closing a channel: contract "builtin.close" if one is declared (e.g. no sender may remain)
		if spec := e.W.Specs.Funcs["builtin.close"]; spec != nil {
			bs.applyContract(spec, "builtin.close", []Val{bs.val(args[0])}, x, nil)
		}
	default:
		unsupp("builtin %s", f.Name())
	}
}

// callStatic applies the callee's contract.
func (bs *blockState) callStatic(f *ssa.Function, args []Val, ins ssa.Instruction, resT types.Type) Val {
	e := bs.e
	key := funcKey(f)
	spec := e.W.Specs.Funcs[key]
	if spec == nil {
		spec = e.W.pureDefault(f)
	}
	if spec == nil {
		unsupp("call to %s: no contract", key)
	}
	return bs.applyContract(spec, key, args, ins, resT)
}

// pureStdlib: packages whose package-level functions do not write memory that go-res can reach (they may allocate).
var pureStdlib = map[string]bool{"strings": true, "strconv": true, "unicode": true, "unicode/utf8": true, "math": true, "math/bits": true, "path": true}

// pureStdlibFuncs: further functions of that kind.
var pureStdlibFuncs = map[string]bool{"fmt.Sprintf": true, "fmt.Sprint": true, "fmt.Sprintln": true, "fmt.Errorf": true, "errors.New": true, "errors.Is": true, "errors.Unwrap": true, "bytes.Equal": true, "bytes.Compare": true, "bytes.HasPrefix": true, "bytes.HasSuffix": true, "bytes.IndexByte": true, "bytes.LastIndexByte": true, "bytes.Index": true, "bytes.Contains": true}

// pureDefault: the default contract of a side-effect-free standard-library function that has no contract of its own in
// /verif/specs/deps: it may allocate and returns an arbitrary value of its type. It keeps a function that starts calling,
// say, strings.ToLower inside the subset, so that the function's own obligations decide (a harmless edit stays harmless,
// an edit that matters fails the obligation that depends on the value). Listed in the evidence like every trusted contract.
func (w *World) pureDefault(f *ssa.Function) *FuncSpec {
	if f == nil || f.Pkg == nil || f.Signature.Recv() != nil || f.Parent() != nil {
		return nil
	}
	path := f.Pkg.Pkg.Path()
	key := funcKey(f)
	if !pureStdlib[path] && !pureStdlibFuncs[key] {
		return nil
	}
	sp := &FuncSpec{Key: key, Pkg: f.Pkg.Pkg.Name(), Trusted: true, Modifies: []string{"alloc"},
		Header:    "default contract (pure standard-library function: allocates, result arbitrary): " + key,
		Loops:     map[int]*LoopSpec{}, Callbacks: map[string]string{}, CallSites: map[string]string{}}
	for i := 0; i < f.Signature.Params().Len(); i++ {
		sp.Params = append(sp.Params, Param{Name: fmt.Sprintf("p%d", i), Type: f.Signature.Params().At(i).Type().String()})
	}
	for i := 0; i < f.Signature.Results().Len(); i++ {
		sp.Results = append(sp.Results, Param{Name: fmt.Sprintf("r%d", i), Type: f.Signature.Results().At(i).Type().String()})
	}
	w.Specs.Funcs[key] = sp
	return sp
}

func (bs *blockState) applyContract(spec *FuncSpec, key string, args []Val, ins ssa.Instruction, resT types.Type) Val {
	return bs.applyContractX(spec, key, args, ins, resT, nil)
}

// loadLv reads a location without generating obligations (for contract evaluation).
func (e *Enc) loadLv(st *State, lv lvalue) Val {
	switch lv.kind {
	case "cell":
		full := e.cellGet(st, lv.alloc)
		return Val{lv.typ, full.C[lv.lo:lv.hi]}
	case "field":
		return e.loadField(st, lv.stT, lv.fidx, lv.obj)
	case "elem":
		return e.elemAt(st, lv.elemT, lv.obj, lv.idx)
	case "elemfield":
		full := e.elemAt(st, lv.elemT, lv.obj, lv.idx)
		return Val{lv.typ, full.C[lv.lo:lv.hi]}
	case "ptr":
		return e.loadPtr(st, lv.typ, lv.obj)
	case "global":
		return e.loadGlobal(st, lv.glob)
	}
	panic("loadLv " + lv.kind)
}

func (bs *blockState) applyContractX(spec *FuncSpec, key string, args []Val, ins ssa.Instruction, resT types.Type, extra map[string]lvalueOrVal) Val {
	e := bs.e
	if spec.Trusted {
		e.usedTrusted[spec.Header] = true
	} else if e.usedCallees != nil {
		e.usedCallees[spec.Key] = true
	}
	short := key[strings.Index(key, ".")+1:]
	e.callOrd[short]++
	site := fmt.Sprintf("call.%s#%d", short, e.callOrd[short])
	if e.spec != nil && key != "builtin.recv" && key != "builtin.send" {
		if alt, ok := e.spec.CallSites[fmt.Sprintf("%s#%d", short, e.callOrd[short])]; ok {
			as := e.W.Specs.Funcs[alt]
			if as == nil {
				panic(contractMismatch{"callsite override: no contract " + alt})
			}
			spec = as
			if spec.Trusted {
				e.usedTrusted[spec.Header] = true
			}
		}
	}
	vars := map[string]Val{}
	if len(args) != len(spec.Params) {
		panic(contractMismatch{fmt.Sprintf("contract of %s has %d params, call has %d args", key, len(spec.Params), len(args))})
	}
	for i, p := range spec.Params {
		vars[p.Name] = args[i]
	}
	bindExtra := func(m map[string]Val, st *State) {
		for n, x := range extra {
			if x.v != nil {
				m[n] = *x.v
			} else {
				m[n] = e.loadLv(st, *x.lv)
			}
		}
	}
	// ghost statements anchored before the call run first: they may establish the precondition
	{
		gv := map[string]Val{}
		for k, v := range vars {
			gv[k] = v
		}
		bs.ghostAt("call "+short+fmt.Sprintf("#%d", e.callOrd[short])+" before", ins, gv)
	}
	preVars := map[string]Val{}
	for k, v := range vars {
		preVars[k] = v
	}
	preStC := bs.st.clone()
	bindExtra(preVars, preStC)
	pre := &Ctx{E: e, Vars: preVars, St: preStC, where: e.key + " " + site + " requires"}
	for i, r := range spec.Requires {
		bs.assertG(site+".pre."+clauseName(r, i), "pre", pre.boolT(r.Expr), r.Src, ins)
	}
	preSt := pre.St
	if spec.Holds != "" {
		bs.monSegment(site+".before", ins)
	}
	e.items = append(e.items, Item{Kind: IAssert, Guard: bs.g, Term: "false", Name: fmt.Sprintf("%s#canary.before.%s", e.key, site), Canary: true, Class: "canary-before", Pos: bs.posOf(ins), Blk: bs.b})
	// havoc what the callee may modify
	bs.havocModifies(spec, vars, ins)
	// a closure may assign the captured variables it writes (no modifies item names them)
	for n, x := range extra {
		if x.lv != nil && x.writes {
			hv := e.freshVal("cap."+n, x.lv.typ)
			bs.assumeG(e.typeFacts(hv))
			bs.assumeG(e.inputBound(hv))
			bs.assumeG(e.allocatedFacts(bs.st, hv))
			bs.storeTo(*x.lv, hv, ins)
		}
	}
	var res Val
	post := &Ctx{E: e, Vars: map[string]Val{}, St: bs.st, where: e.key + " " + site + " ensures"}
	for k, v := range vars {
		post.Vars[k] = v
	}
	bindExtra(post.Vars, bs.st)
	post.Old = &Ctx{E: e, Vars: preVars, St: preSt, where: e.key + " " + site + " old"}
	if resT != nil {
		res = e.freshVal("ret."+short, resT)
		bs.e.assume(bs.g, e.typeFacts(res))
		bs.e.assume(bs.g, e.inputBound(res))
		bs.e.assume(bs.g, e.allocatedFacts(bs.st, res))
		if tup, ok := resT.(*types.Tuple); ok {
			lo := 0
			for i := 0; i < tup.Len(); i++ {
				n := len(flatten(tup.At(i).Type()))
				rv := Val{tup.At(i).Type(), res.C[lo : lo+n]}
				if i < len(spec.Results) {
					post.Vars[spec.Results[i].Name] = rv
				}
				lo += n
			}
		} else if len(spec.Results) > 0 {
			post.Vars[spec.Results[0].Name] = res
		}
	}
	if spec.Async != "" {
		// ownership of captured variables passes to a closure that runs later or concurrently: the creating
		// function must not assign a captured variable after handing the closure over (a later iteration of
		// a loop counts, unless the variable is declared anew in each iteration)
		for i, p := range spec.Params {
			if p.Name != spec.Async {
				continue
			}
			mc, ok := e.closureOf[args[i].C[0]]
			if !ok {
				continue
			}
			for j, b := range mc.Bindings {
				a, isAlloc := b.(*ssa.Alloc)
				if !isAlloc {
					continue
				}
				okTerm := "true"
				if st := storeReachableAfter(ins, a); st != nil {
					okTerm = "false"
				}
				bs.assertG(site+".capture."+mc.Fn.(*ssa.Function).FreeVars[j].Name(), "capture", okTerm,
					"captured variable "+mc.Fn.(*ssa.Function).FreeVars[j].Name()+" is not assigned after the closure is handed over", ins)
			}
		}
	}
	if spec.Invokes != "" {
		// the callee may invoke the closure argument any number of times: the closure's `preserves`
		// invariants hold before, everything the closure may modify is forgotten, the invariants hold after
		var carg Val
		found := false
		for i, p := range spec.Params {
			if p.Name == spec.Invokes {
				carg, found = args[i], true
			}
		}
		mc, ok := e.closureOf[carg.C[0]]
		if !found {
			unsupp("call of %s: no parameter %s", key, spec.Invokes)
		}
		if !ok {
			// the function value is not a closure created by the caller (e.g. the caller's own parameter, handed
			// on): the caller sees none of its captured state, there is nothing to preserve or to forget here
			goto invokesDone
		}
		{
		cfn := mc.Fn.(*ssa.Function)
		cs := e.W.Specs.Funcs[funcKey(cfn)]
		if cs == nil {
			unsupp("closure %s has no contract", funcKey(cfn))
		}
		bind := func(st *State) map[string]Val {
			m := map[string]Val{}
			for i, fv := range cfn.FreeVars {
				lv := bs.lval(mc.Bindings[i])
				m[fv.Name()] = e.loadLv(st, lv)
			}
			return m
		}
		// the invariants are asserted in the state before the call (preSt), assumed in the state after it
		pc := &Ctx{E: e, Vars: bind(preSt), St: preSt, where: e.key + " " + site + " invokes (before)"}
		for i, r := range cs.Preserves {
			bs.assertG(site+".invokes."+clauseName(r, i), "pre", pc.boolT(r.Expr), r.Src, ins)
		}
		bs.havocModifies(cs, map[string]Val{}, ins)
		for i, fv := range cfn.FreeVars {
			if closureWrites(cfn, fv) {
				lv := bs.lval(mc.Bindings[i])
				hv := e.freshVal("cap."+fv.Name(), lv.typ)
				bs.assumeG(e.typeFacts(hv))
				bs.assumeG(e.inputBound(hv))
				bs.assumeG(e.allocatedFacts(bs.st, hv))
				bs.storeTo(lv, hv, ins)
			}
		}
		ac := &Ctx{E: e, Vars: bind(bs.st), St: bs.st, where: e.key + " " + site + " invokes (after)"}
		for _, r := range cs.Preserves {
			bs.assumeG(ac.boolT(r.Expr))
		}
		}
	}
invokesDone:
	if spec.Applies != "" {
		// higher-order dependency (DESIGN 3.5): the closure argument runs exactly once, here
		var carg Val
		found := false
		for i, p := range spec.Params {
			if p.Name == spec.Applies {
				carg, found = args[i], true
			}
		}
		mc, ok := e.closureOf[carg.C[0]]
		if !found || !ok {
			unsupp("call of %s: the function argument is not a closure defined here", key)
		}
		cfn := mc.Fn.(*ssa.Function)
		var cargs []Val
		for _, p := range cfn.Params {
			v := e.freshVal("hof."+p.Name(), p.Type())
			e.assume(bs.g, e.typeFacts(v))
			if _, isPtr := p.Type().Underlying().(*types.Pointer); isPtr {
				e.assume(bs.g, and(app("<", "0", v.C[0]), app("<", v.C[0], e.heapKey(bs.st, "alloc", SInt))))
			}
			cargs = append(cargs, v)
		}
		saved := map[string]string{}
		for _, g := range spec.Rollback {
			for _, ks := range e.resolveModifies("ghost." + g) {
				saved[ks[0]] = e.heapKey(bs.st, ks[0], ks[1])
			}
		}
		var crt types.Type
		if cfn.Signature.Results().Len() == 1 {
			crt = cfn.Signature.Results().At(0).Type()
		}
		cres := bs.applyClosure(mc, cargs, ins, crt, nil)
		if crt != nil && resT != nil && len(cres.C) == len(res.C) {
			if spec.CommitMayFail {
				bs.assumeG(imp(not(eq(cres.C[0], "0")), valEq(res, cres)))
			} else {
				bs.assumeG(valEq(res, cres))
			}
			for k, old := range saved {
				cur := e.heapKey(bs.st, k, e.sortOfKey(k))
				nv := e.fresh("rb."+k, e.sortOfKey(k))
				e.def(eq(nv, ite(eq(res.C[0], "0"), cur, old)))
				bs.st.m[k] = nv
			}
		}
	}
	if spec.MayPanic {
		// exceptional outcome
		p := e.fresh("panicked."+short, SBool)
		xg := bs.namedGuard(and(bs.g, p))
		xs := &blockState{e: e, b: bs.b, g: xg, st: bs.st.clone()}
		xc := &Ctx{E: e, Vars: post.Vars, St: xs.st, Old: post.Old, where: e.key + " " + site + " ensures_on_panic"}
		for _, en := range spec.XEnsures {
			xs.e.assume(xs.g, xc.boolT(en.Expr))
		}
		// the panic value is arbitrary and may be the nil interface: with a main module declaring go < 1.21
		// (go-res itself declares go 1.18) panic(nil) is legal and recover() returns nil for it
		pv := e.freshVal("pv."+short, types.NewInterfaceType(nil, nil))
		xs.raise(pv, "panic propagated from "+short, ins)
		bs.g = bs.namedGuard(and(bs.g, not(p)))
	}
	for _, en := range spec.Ensures {
		bs.assumeG(post.boolT(en.Expr))
	}
	if spec.Holds != "" {
		bs.monNewSegment()
	}
	// reachability canary: the callee's postcondition must not contradict what is known here
	e.items = append(e.items, Item{Kind: IAssert, Guard: bs.g, Term: "false", Name: fmt.Sprintf("%s#canary.after.%s", e.key, site), Canary: true, Class: "canary", Pos: bs.posOf(ins), Blk: bs.b})
	bs.ghostAt("call "+short+fmt.Sprintf("#%d", e.callOrd[short])+" after", ins, post.Vars)
	return res
}

// ghostAt executes the ghost statements of the function under verification anchored here.
// extra makes the callee's parameter/result names visible as arg_<name>.
func (bs *blockState) ghostAt(anchor string, ins ssa.Instruction, extra map[string]Val) {
	e := bs.e
	if e.spec == nil {
		return
	}
	for gi, gs := range e.spec.Ghost {
		if gs.Anchor != anchor {
			continue
		}
		e.ghostUsed[gi] = true
		c := e.ctx(bs.st, "ghost "+anchor)
		for k, v := range extra {
			c.Vars["arg_"+k] = v
		}
		switch gs.Kind {
		case "assert":
			bs.assertG(fmt.Sprintf("ghost.%s.%s", sanitize(strings.ReplaceAll(anchor, " ", "_")), clauseName(gs.Clause, gi)), "ghost", c.boolT(gs.Clause.Expr), gs.Clause.Src, ins)
		case "use":
			// a proved lemma instance (pre => post): sound to assume
			bs.e.assume(bs.g, c.boolT(gs.Clause.Expr))
		case "set":
			gt, ok := e.W.Specs.GhostVars[gs.Target]
			if !ok {
				panic(contractMismatch{"set of unknown ghost variable " + gs.Target})
			}
			v := c.tr(gs.Clause.Expr)
			for j, so := range flatten(specType(gt)) {
				k := ghostKey(gs.Target, j)
				e.heapKey(bs.st, k, so)
				if isAtom(v.C[j]) {
					bs.st.m[k] = v.C[j]
					continue
				}
				n := e.fresh("G."+gs.Target, so)
				e.def(eq(n, v.C[j]))
				bs.st.m[k] = n
			}
		}
	}
}

// havocModifies: `modifies` lists heap keys by "Type.field", "bytes", "all", or nothing.
func (bs *blockState) havocModifies(spec *FuncSpec, vars map[string]Val, ins ssa.Instruction) {
	e := bs.e
	if !spec.Trusted {
		// every go-res function (and client callback) may allocate, whether or not its contract says so: the
		// allocation mark only grows. (A body that starts allocating is not a contract violation.)
		old := bs.st.m["alloc"]
		bs.st.m["alloc"] = e.fresh("alloc", SInt)
		e.assume(bs.g, app("<=", old, bs.st.m["alloc"]))
	}
	for _, m := range spec.Modifies {
		switch {
		case m == "nothing" || m == "":
		case m == "all":
			e.havocAll(bs.st, bs.g)
		case strings.HasPrefix(m, "*"):
			// the object a pointer argument (possibly boxed in an interface) points to
			v, ok := vars[m[1:]]
			if !ok {
				panic(contractMismatch{"modifies " + m + ": no such parameter"})
			}
			ref := v.C[0]
			t := v.T
			if _, isI := t.Underlying().(*types.Interface); isI {
				ref = v.C[1]
				dt, ok := e.dynType[ref]
				if !ok {
					e.havocAll(bs.st, bs.g) // unknown dynamic type: forget everything
					continue
				}
				t = dt
			}
			if p, ok := t.Underlying().(*types.Pointer); ok {
				bs.havocObject(p.Elem(), ref)
			} else {
				e.havocAll(bs.st, bs.g)
			}
		case m == "alloc":
			old := bs.st.m["alloc"]
			bs.st.m["alloc"] = e.fresh("alloc", SInt)
			e.assume(bs.g, app("<=", old, bs.st.m["alloc"]))
		default:
			var kss [][2]string
			if strings.HasPrefix(m, "map:") {
				kss = e.resolveMapItem(strings.TrimPrefix(m, "map:"))
			} else {
				kss = e.resolveHeapItem(m)
			}
			for _, ks := range kss {
				e.heapKey(bs.st, ks[0], ks[1])
				bs.st.m[ks[0]] = e.fresh("hv."+ks[0], ks[1])
			}
		}
	}
}

// resolveModifies maps a modifies item to (state key, sort) pairs:
// "bytes" (all []byte contents), "pkg.Type.field", "ghost.name".
// resolveHeapItem: like resolveModifies, plus "elems:pkg.Type.field" (element memory of a slice field).
func (e *Enc) resolveHeapItem(m string) [][2]string {
	if strings.HasPrefix(m, "elems:") {
		parts := strings.Split(strings.TrimPrefix(m, "elems:"), ".")
		if len(parts) == 3 {
			for _, p := range e.W.Prog.AllPackages() {
				if p.Pkg.Name() != parts[0] {
					continue
				}
				if tn, ok := p.Pkg.Scope().Lookup(parts[1]).(*types.TypeName); ok {
					if st, ok := tn.Type().Underlying().(*types.Struct); ok {
						for i := 0; i < st.NumFields(); i++ {
							if st.Field(i).Name() == parts[2] {
								if sl, ok := st.Field(i).Type().Underlying().(*types.Slice); ok {
									var out [][2]string
									for j, so := range flatten(sl.Elem()) {
										out = append(out, [2]string{elemKey(sl.Elem(), j), "(Array Int (Array Int " + so + "))"})
									}
									return out
								}
							}
						}
					}
				}
			}
		}
		panic(contractMismatch{"cannot resolve heap item " + m})
	}
	return e.resolveModifies(m)
}

func (e *Enc) resolveModifies(m string) [][2]string {
	if m == "bytes" {
		return [][2]string{{elemKey(tByte, 0), "(Array Int (Array Int Int))"}}
	}
	if strings.HasPrefix(m, "ghost.") {
		gt, ok := e.W.Specs.GhostVars[strings.TrimPrefix(m, "ghost.")]
		if !ok {
			panic(contractMismatch{"unknown ghost variable in modifies: " + m})
		}
		var out [][2]string
		for j, so := range flatten(specType(gt)) {
			out = append(out, [2]string{ghostKey(strings.TrimPrefix(m, "ghost."), j), so})
		}
		return out
	}
	parts := strings.Split(m, ".")
	if len(parts) == 3 {
		for _, p := range e.W.Prog.AllPackages() {
			if p.Pkg.Name() != parts[0] {
				continue
			}
			if tn, ok := p.Pkg.Scope().Lookup(parts[1]).(*types.TypeName); ok {
				if st, ok := tn.Type().Underlying().(*types.Struct); ok {
					for i := 0; i < st.NumFields(); i++ {
						if st.Field(i).Name() == parts[2] {
							var out [][2]string
							for j, so := range flatten(st.Field(i).Type()) {
								out = append(out, [2]string{fieldKey(tn.Type(), i, j), "(Array Int " + so + ")"})
							}
							return out
						}
					}
				}
			}
		}
	}
	panic(contractMismatch{"cannot resolve modifies item " + m})
}

func (bs *blockState) copyBuiltin(x *ssa.Call) {
	e := bs.e
	dst := bs.val(x.Call.Args[0])
	dstT, ok := x.Call.Args[0].Type().Underlying().(*types.Slice)
	if !ok {
		unsupp("copy into %s", x.Call.Args[0].Type())
	}
	elemT := dstT.Elem()
	srcT := x.Call.Args[1].Type()
	src := bs.val(x.Call.Args[1])
	n := e.fresh(x.Name()+".n", SInt)
	// source as (array term per component, offset, length)
	var srcArr []string
	var so, sn string
	if isString(srcT) {
		srcArr, so, sn = []string{src.C[0]}, src.C[1], src.C[2]
	} else {
		so, sn = src.C[1], src.C[2]
		for j, s := range flatten(elemT) {
			h := e.heapKey(bs.st, elemKey(elemT, j), "(Array Int (Array Int "+s+"))")
			srcArr = append(srcArr, app("select", h, src.C[0]))
		}
	}
	e.def(eq(n, ite(app("<", dst.C[2], sn), dst.C[2], sn)))
	for j, s := range flatten(elemT) {
		k := elemKey(elemT, j)
		so2 := "(Array Int (Array Int " + s + "))"
		h := e.heapKey(bs.st, k, so2)
		old := app("select", h, dst.C[0])
		na := e.fresh("copied", "(Array Int "+s+")")
		q := e.freshName("k")
		// absolute indices of the destination backing array, directed new -> old; the source is read
		// from the memory before the copy (Go's copy handles overlap like memmove)
		e.def(fmt.Sprintf("(forall ((%s Int)) (! (= (select %s %s) (ite (and (<= %s %s) (< %s (+ %s %s))) (select %s (+ %s (- %s %s))) (select %s %s))) :pattern ((select %s %s))))",
			q, na, q, dst.C[1], q, q, dst.C[1], n, srcArr[j], so, q, dst.C[1], old, q, na, q))
		nh := e.fresh("M.copy", so2)
		e.def(eq(nh, app("store", h, dst.C[0], na)))
		bs.st.m[k] = nh
	}
	e.regs[x] = Val{x.Type(), []string{n}}
}

func (bs *blockState) makeSlice(x *ssa.MakeSlice) {
	e := bs.e
	ln := bs.val(x.Len).C[0]
	cp := bs.val(x.Cap).C[0]
	bs.assertG(fmt.Sprintf("makeslice.%d", e.ordinal("makeslice")), "bounds", and(app("<=", "0", ln), app("<=", ln, cp), app("<=", cp, "maxcap")), "make: len out of range", x)
	r := e.allocRef(bs.st, bs.g, x.Name())
	elemT := x.Type().Underlying().(*types.Slice).Elem()
	// zeroed contents
	for j, so := range flatten(elemT) {
		k := elemKey(elemT, j)
		h := e.heapKey(bs.st, k, "(Array Int (Array Int "+so+"))")
		nh := e.fresh("M."+typeKey(elemT), "(Array Int (Array Int "+so+"))")
		zero := zeroOfSort(so)
		e.def(eq(nh, app("store", h, r, "((as const (Array Int "+so+")) "+zero+")")))
		bs.st.m[k] = nh
	}
	e.regs[x] = Val{x.Type(), []string{r, "0", ln, cp}}
}

func (bs *blockState) indexAddr(x *ssa.IndexAddr) {
	e := bs.e
	t := x.X.Type()
	i := bs.val(x.Index).C[0]
	switch u := t.Underlying().(type) {
	case *types.Slice:
		b := bs.val(x.X)
		bs.assertG(fmt.Sprintf("index.%d", e.ordinal("index")), "bounds", and(app("<=", "0", i), app("<", i, b.C[2])), "slice index in range", x)
		idx := e.fresh(x.Name()+".idx", SInt)
		e.def(eq(idx, add(b.C[1], i)))
		e.addrs[x] = lvalue{kind: "elem", obj: b.C[0], idx: idx, elemT: u.Elem(), typ: u.Elem()}
	default:
		if at, ok := isArrayPtr(t); ok {
			if blv, isCell := e.addrs[x.X]; isCell && blv.kind == "cell" {
				// element of a local array variable: the cell component is an SMT array
				bs.assertG(fmt.Sprintf("index.%d", e.ordinal("index")), "bounds", and(app("<=", "0", i), app("<", i, fmt.Sprint(at.Len()))), "array index in range", x)
				e.addrs[x] = lvalue{kind: "cellidx", alloc: blv.alloc, lo: blv.lo, hi: blv.hi, idx: i, typ: at.Elem(), elemT: at.Elem()}
				return
			}
			b := bs.val(x.X)
			bs.assertG(fmt.Sprintf("index.%d", e.ordinal("index")), "bounds", and(app("<=", "0", i), app("<", i, fmt.Sprint(at.Len()))), "array index in range", x)
			e.addrs[x] = lvalue{kind: "elem", obj: b.C[0], idx: i, elemT: at.Elem(), typ: at.Elem()}
			return
		}
		unsupp("IndexAddr on %s", t)
	}
}

func (bs *blockState) fieldAddr(x *ssa.FieldAddr) {
	e := bs.e
	pt := x.X.Type().Underlying().(*types.Pointer).Elem()
	st := pt.Underlying().(*types.Struct)
	// local struct cell?
	if blv, ok := e.addrs[x.X]; ok {
		switch blv.kind {
		case "cell":
			bst := blv.typ.Underlying().(*types.Struct)
			lo, hi := fieldRange(bst, x.Field)
			e.addrs[x] = lvalue{kind: "cell", alloc: blv.alloc, lo: blv.lo + lo, hi: blv.lo + hi, typ: st.Field(x.Field).Type()}
			return
		case "elem":
			// field of a struct slice element: component sub-range of the element heap
			bst := blv.elemT.Underlying().(*types.Struct)
			lo, hi := fieldRange(bst, x.Field)
			e.addrs[x] = lvalue{kind: "elemfield", obj: blv.obj, idx: blv.idx, elemT: blv.elemT, lo: lo, hi: hi, typ: st.Field(x.Field).Type()}
			return
		case "elemfield":
			bst := blv.typ.Underlying().(*types.Struct)
			lo, hi := fieldRange(bst, x.Field)
			e.addrs[x] = lvalue{kind: "elemfield", obj: blv.obj, idx: blv.idx, elemT: blv.elemT, lo: blv.lo + lo, hi: blv.lo + hi, typ: st.Field(x.Field).Type()}
			return
		case "ptr":
			if _, nested := st.Field(x.Field).Type().Underlying().(*types.Struct); nested {
				e.addrs[x] = lvalue{kind: "ptr", obj: subRef(blv.obj, x.Field), typ: st.Field(x.Field).Type()}
				return
			}
			e.addrs[x] = lvalue{kind: "field", obj: blv.obj, stT: pt, fidx: x.Field, typ: st.Field(x.Field).Type()}
			return
		case "field":
			// nested struct by value inside a heap struct: not in subset
			unsupp("nested struct field address")
		}
	}
	obj := bs.val(x.X).C[0]
	if _, isArr := st.Field(x.Field).Type().Underlying().(*types.Array); isArr {
		// an array inside an object is its own element memory, addressed by an interior reference
		e.addrs[x] = lvalue{kind: "ptr", obj: subRef(obj, x.Field), typ: st.Field(x.Field).Type()}
		return
	}
	if _, nested := st.Field(x.Field).Type().Underlying().(*types.Struct); nested {
		e.addrs[x] = lvalue{kind: "ptr", obj: subRef(obj, x.Field), typ: st.Field(x.Field).Type()}
		return
	}
	e.addrs[x] = lvalue{kind: "field", obj: obj, stT: pt, fidx: x.Field, typ: st.Field(x.Field).Type()}
}

func (bs *blockState) appendBuiltin(x *ssa.Call) {
	e := bs.e
	t := x.Type().Underlying().(*types.Slice)
	s := bs.val(x.Call.Args[0])
	addT := x.Call.Args[1].Type()
	// appended segment as (count, element-at function)
	var n string
	var elemAt func(k string) Val
	if isString(addT) {
		a := bs.val(x.Call.Args[1])
		n = a.C[2]
		elemAt = func(k string) Val { return Val{tByte, []string{app("select", a.C[0], add(a.C[1], k))}} }
	} else {
		a := bs.val(x.Call.Args[1])
		n = a.C[2]
		snap := bs.st.clone()
		elemAt = func(k string) Val { return e.sliceElem(snap, t.Elem(), a, k) }
	}
	newLen := e.fresh(x.Name()+".len", SInt)
	e.def(eq(newLen, add(s.C[2], n)))
	bs.overflow(x, tInt, newLen)
	bs.assertG(fmt.Sprintf("append.%d", e.ordinal("append")), "bounds", app("<=", newLen, "maxcap"), "append: length out of range", x)
	fits := e.fresh(x.Name()+".fits", SBool)
	e.def(eq(fits, app("<=", newLen, s.C[3])))
	fresh := e.allocRef(bs.st, bs.g, x.Name())
	ref := e.fresh(x.Name()+".r", SInt)
	off := e.fresh(x.Name()+".o", SInt)
	cp := e.fresh(x.Name()+".c", SInt)
	e.def(eq(ref, ite(fits, s.C[0], fresh)))
	e.def(eq(off, ite(fits, s.C[1], "0")))
	e.def(imp(fits, eq(cp, s.C[3])))
	e.def(imp(not(fits), and(app("<=", newLen, cp), app("<=", cp, "maxcap"))))
	// nil slice with nothing appended stays nil
	for j, so := range flatten(t.Elem()) {
		k := elemKey(t.Elem(), j)
		h := e.heapKey(bs.st, k, "(Array Int (Array Int "+so+"))")
		old := app("select", h, s.C[0])
		na := e.fresh("appended", "(Array Int "+so+")")
		q := e.freshName("k")
		ev := elemAt(sub(sub(q, off), s.C[2]))
		// new array content by absolute index
		e.def(fmt.Sprintf("(forall ((%s Int)) (! (= (select %s %s) (ite (and (<= (+ %s %s) %s) (< %s (+ %s %s))) %s (ite %s (select %s %s) (select %s (+ %s (- %s %s)))))) :pattern ((select %s %s))))",
			q, na, q, off, s.C[2], q, q, off, newLen, ev.C[j], fits, old, q, old, s.C[1], q, off, na, q))
		nh := e.fresh("M."+typeKey(t.Elem()), "(Array Int (Array Int "+so+"))")
		e.def(eq(nh, app("store", h, ref, na)))
		bs.st.m[k] = nh
	}
	// appending zero elements to a nil slice yields nil
	isNilRes := and(eq(s.C[0], "0"), eq(n, "0"))
	bs.setReg(x, Val{x.Type(), []string{ite(isNilRes, "0", ref), ite(isNilRes, "0", off), newLen, ite(isNilRes, "0", cp)}})
}

// atomicCall: sync/atomic operations on shared words (DESIGN 3.6). A loaded value is only valid
// at that instant: other threads may change the word at any time, so every load yields an
// arbitrary value of the type; stores and CAS have no effect the sequential proof may rely on.
func (bs *blockState) atomicCall(x *ssa.Call, f *ssa.Function) {
	e := bs.e
	name := f.Name()
	// ghost statements can be anchored at the operation (call <Name>#k after): arg_res is the result,
	// arg_old / arg_new the operands of a compare-and-swap, arg_val the operand of a store / swap / add
	defer func() {
		e.callOrd[name]++
		extra := map[string]Val{}
		if v, ok := e.regs[x]; ok {
			extra["res"] = v
		}
		args := x.Call.Args
		switch {
		case strings.HasPrefix(name, "CompareAndSwap") && len(args) == 3:
			extra["old"], extra["new"] = bs.val(args[1]), bs.val(args[2])
		case len(args) == 2:
			extra["val"] = bs.val(args[1])
		}
		bs.ghostAt("call "+name+fmt.Sprintf("#%d", e.callOrd[name])+" after", x, extra)
	}()
	switch {
	case strings.HasPrefix(name, "Load"):
		v := e.freshVal("atomic."+x.Name(), x.Type())
		e.assume(bs.g, e.typeFacts(v))
		e.regs[x] = v
	case strings.HasPrefix(name, "Store"):
		// nothing to record
	case strings.HasPrefix(name, "CompareAndSwap"):
		v := e.freshVal("cas."+x.Name(), x.Type())
		e.regs[x] = v
	case strings.HasPrefix(name, "Add"), strings.HasPrefix(name, "Swap"):
		v := e.freshVal("atomic."+x.Name(), x.Type())
		e.assume(bs.g, e.typeFacts(v))
		e.regs[x] = v
	default:
		unsupp("sync/atomic.%s", name)
	}
}

// storeReachableAfter finds a store to the cell allocated by a that can execute after instruction from
// without the cell being allocated anew in between.
func storeReachableAfter(from ssa.Instruction, a *ssa.Alloc) ssa.Instruction {
	isStoreTo := func(ins ssa.Instruction) bool {
		st, ok := ins.(*ssa.Store)
		return ok && rootAlloc(st.Addr) == a
	}
	blk := from.Block()
	// rest of the current block
	idx := -1
	for i, ins := range blk.Instrs {
		if ins == from {
			idx = i
		}
	}
	scan := func(instrs []ssa.Instruction) (ssa.Instruction, bool) { // (store found, stop)
		for _, ins := range instrs {
			if ins == ssa.Instruction(a) {
				return nil, true
			}
			if isStoreTo(ins) {
				return ins, true
			}
		}
		return nil, false
	}
	if st, stop := scan(blk.Instrs[idx+1:]); st != nil {
		return st
	} else if stop {
		return nil
	}
	seen := map[*ssa.BasicBlock]bool{}
	work := append([]*ssa.BasicBlock{}, blk.Succs...)
	for len(work) > 0 {
		b := work[len(work)-1]
		work = work[:len(work)-1]
		if seen[b] {
			continue
		}
		seen[b] = true
		st, stop := scan(b.Instrs)
		if st != nil {
			return st
		}
		if stop {
			continue
		}
		work = append(work, b.Succs...)
	}
	return nil
}
