package main

// Translation of contract expressions (Go expression syntax + builtins) to SMT.

import (
	"fmt"
	"go/ast"
	"go/constant"

	"go/token"
	"go/types"
	"golang.org/x/tools/go/ssa"
	"strconv"
	"strings"
)

type Ctx struct {
	E          *Enc
	Vars       map[string]Val
	St         *State
	Old        *Ctx
	LoopEntry  *Ctx
	where      string
	lazyStruct bool
}

func (c *Ctx) with(vars map[string]Val) *Ctx {
	n := *c
	n.Vars = map[string]Val{}
	for k, v := range c.Vars {
		n.Vars[k] = v
	}
	for k, v := range vars {
		n.Vars[k] = v
	}
	return &n
}

func specType(name string) types.Type {
	switch strings.TrimSpace(name) {
	case "string", "Pattern", "Ref", "SoftRef":
		return tString
	case "int", "byte", "rune", "ref", "int64", "uint8", "int32":
		return tInt
	case "bool":
		return tBool
	case "[]byte":
		return types.NewSlice(tByte)
	case "iface", "interface{}", "error":
		return types.NewInterfaceType(nil, nil)
	case "arr":
		return tArr
	case "arrb":
		return tArrB
	}
	panic("spec type not supported: " + name)
}

// ghost-only types: infinite arrays Int->Int, Int->Bool
var tArr = types.NewNamed(types.NewTypeName(token.NoPos, nil, "ghostarr", nil), types.NewStruct([]*types.Var{types.NewField(token.NoPos, nil, "a", types.NewArray(tInt, 0), false)}, nil), nil)
var tArrB = types.NewNamed(types.NewTypeName(token.NoPos, nil, "ghostarrb", nil), types.NewStruct([]*types.Var{types.NewField(token.NoPos, nil, "a", types.NewArray(tBool, 0), false)}, nil), nil)

func (c *Ctx) fail(x ast.Node, format string, a ...interface{}) {
	panic(fmt.Sprintf("%s: contract expression error: %s", c.where, fmt.Sprintf(format, a...)))
}

func (c *Ctx) boolT(x ast.Expr) string {
	v := c.tr(x)
	if !isBool(v.T) {
		c.fail(x, "expected bool, got %s in %s", v.T, exprString(x))
	}
	return v.C[0]
}
func (c *Ctx) intT(x ast.Expr) string {
	v := c.tr(x)
	if !isInteger(v.T) {
		c.fail(x, "expected integer, got %s in %s", v.T, exprString(x))
	}
	return v.C[0]
}

func exprString(x ast.Expr) string {
	return types.ExprString(x)
}

func (c *Ctx) tr(x ast.Expr) Val {
	switch x := x.(type) {
	case *ast.ParenExpr:
		return c.tr(x.X)
	case *ast.BasicLit:
		switch x.Kind {
		case token.INT:
			n, err := strconv.ParseInt(x.Value, 0, 64)
			if err != nil {
				c.fail(x, "bad int %s", x.Value)
			}
			return ival(intLit(n))
		case token.CHAR:
			r, _, _, err := strconv.UnquoteChar(x.Value[1:len(x.Value)-1], '\'')
			if err != nil {
				c.fail(x, "bad char %s", x.Value)
			}
			return ival(intLit(int64(r)))
		case token.STRING:
			s, err := strconv.Unquote(x.Value)
			if err != nil {
				c.fail(x, "bad string %s", x.Value)
			}
			return strLit(s)
		}
	case *ast.Ident:
		switch x.Name {
		case "true":
			return bval("true")
		case "false":
			return bval("false")
		case "nil":
			return Val{types.Typ[types.UntypedNil], []string{"0"}}
		}
		if v, ok := c.Vars[x.Name]; ok {
			return v
		}
		if x.Name == "me" {
			return ival("me")
		}
		if c.E != nil {
			if v, ok := c.E.lookupLocal(c, x.Name); ok {
				return v
			}
			if gt, ok := c.E.W.Specs.GhostVars[x.Name]; ok && c.St != nil {
				return c.E.ghostGet(c.St, x.Name, gt)
			}
			if v, ok := c.E.globalByName(c, x.Name); ok {
				return v
			}
			// an integer constant of the function's package
			if c.E.fn != nil {
				pkg := c.E.fn.Pkg
				if pkg == nil && c.E.fn.Parent() != nil {
					pkg = c.E.fn.Parent().Pkg
				}
				if pkg != nil {
					if k, ok := pkg.Pkg.Scope().Lookup(x.Name).(*types.Const); ok && k.Val().Kind() == constant.Int {
						return ival(k.Val().ExactString())
					}
				}
			}
		}
		c.fail(x, "unknown identifier %s", x.Name)
	case *ast.UnaryExpr:
		switch x.Op {
		case token.NOT:
			return bval(not(c.boolT(x.X)))
		case token.SUB:
			return ival("(- " + c.intT(x.X) + ")")
		}
	case *ast.BinaryExpr:
		return c.trBinary(x)
	case *ast.CallExpr:
		return c.trCall(x)
	case *ast.IndexExpr:
		b := c.tr(x.X)
		if mt, ok := b.T.Underlying().(*types.Map); ok {
			var kv Val
			if l, ok := litOf(x.Index); ok {
				kv = strLit(l)
			} else {
				kv = c.tr(x.Index)
			}
			kid := mapKeyId(c.E, mt.Key(), kv)
			_, v := c.E.mapGet(c.St, mt, b.C[0], kid)
			return v
		}
		i := c.intT(x.Index)
		switch {
		case isString(b.T):
			return Val{tByte, []string{app("select", b.C[0], add(b.C[1], i))}}
		case b.T == tArr:
			return ival(app("select", b.C[0], i))
		case b.T == tArrB:
			return bval(app("select", b.C[0], i))
		}
		if sl, ok := b.T.Underlying().(*types.Slice); ok {
			return c.E.sliceElem(c.St, sl.Elem(), b, i)
		}
		if at, ok := b.T.Underlying().(*types.Array); ok {
			out := Val{T: at.Elem()}
			for _, comp := range b.C {
				out.C = append(out.C, app("select", comp, i))
			}
			return out
		}
		c.fail(x, "cannot index %s", b.T)
	case *ast.KeyValueExpr:
	case *ast.SliceExpr:
		b := c.tr(x.X)
		lo := "0"
		if x.Low != nil {
			lo = c.intT(x.Low)
		}
		if isString(b.T) {
			hi := b.C[2]
			if x.High != nil {
				hi = c.intT(x.High)
			}
			return sval(b.C[0], add(b.C[1], lo), sub(hi, lo))
		}
		if _, ok := b.T.Underlying().(*types.Slice); ok {
			hi := b.C[2]
			if x.High != nil {
				hi = c.intT(x.High)
			}
			return Val{b.T, []string{b.C[0], add(b.C[1], lo), sub(hi, lo), sub(b.C[3], lo)}}
		}
		c.fail(x, "cannot slice %s", b.T)
	case *ast.SelectorExpr:
		if id, ok := x.X.(*ast.Ident); ok && c.E != nil && c.E.fn != nil {
			if _, isVar := c.Vars[id.Name]; !isVar {
				if _, isLocal := c.E.lookupLocal(c, id.Name); !isLocal {
					for _, p := range c.E.W.Prog.AllPackages() {
						if p.Pkg.Name() == id.Name {
							if g, ok := p.Members[x.Sel.Name].(*ssa.Global); ok && c.St != nil {
								return c.E.loadGlobal(c.St, g)
							}
						}
					}
				}
			}
		}
		// a.b.c: intermediate struct-valued fields are addressed, not loaded
		saved := c.lazyStruct
		_, chained := x.X.(*ast.SelectorExpr)
		c.lazyStruct = chained || saved
		c.lazyStruct = true
		b := c.tr(x.X)
		c.lazyStruct = saved
		return c.selectField(x, b, x.Sel.Name)
	case *ast.StarExpr:
		b := c.tr(x.X)
		if p, ok := b.T.Underlying().(*types.Pointer); ok {
			return c.E.loadPtr(c.St, p.Elem(), b.C[0])
		}
		c.fail(x, "cannot dereference %s", b.T)
	}
	c.fail(x, "unsupported expression %s (%T)", exprString(x), x)
	return Val{}
}

func (c *Ctx) selectField(x ast.Expr, b Val, name string) Val {
	v := c.selectField0(x, b, name)
	if c.E != nil && c.E.fn != nil && !strings.Contains(strings.Join(v.C, " "), "q_") && !strings.Contains(strings.Join(v.C, " "), "L_") {
		if tf := c.E.typeFacts(v); tf != "true" && len(tf) < 2000 {
			c.E.def(tf)
		}
		if c.St != nil {
			if af := c.E.allocatedFacts(c.St, v); af != "true" && len(af) < 2000 {
				c.E.def(af) // whatever a heap location holds was allocated before that heap state
			}
		}
	}
	return v
}

func (c *Ctx) selectField0(x ast.Expr, b Val, name string) Val {
	t := b.T
	isPtr := false
	if p, ok := t.Underlying().(*types.Pointer); ok {
		t = p.Elem()
		isPtr = true
	}
	st, ok := t.Underlying().(*types.Struct)
	if !ok {
		c.fail(x, "selector %s on non-struct %s", name, b.T)
	}
	for i := 0; i < st.NumFields(); i++ {
		if st.Field(i).Name() == name {
			if isPtr {
				if _, isSt := st.Field(i).Type().Underlying().(*types.Struct); isSt && c.lazyStruct {
					return Val{types.NewPointer(st.Field(i).Type()), []string{subRef(b.C[0], i)}}
				}
				return c.E.loadField(c.St, t, i, b.C[0])
			}
			lo, hi := fieldRange(st, i)
			return Val{st.Field(i).Type(), b.C[lo:hi]}
		}
	}
	// embedded fields: one level
	for i := 0; i < st.NumFields(); i++ {
		if st.Field(i).Embedded() {
			var inner Val
			if isPtr {
				if _, isSt := st.Field(i).Type().Underlying().(*types.Struct); isSt {
					inner = Val{types.NewPointer(st.Field(i).Type()), []string{subRef(b.C[0], i)}}
				} else {
					inner = c.E.loadField(c.St, t, i, b.C[0])
				}
			} else {
				lo, hi := fieldRange(st, i)
				inner = Val{st.Field(i).Type(), b.C[lo:hi]}
			}
			it := inner.T
			if p, ok := it.Underlying().(*types.Pointer); ok {
				it = p.Elem()
			}
			if ist, ok := it.Underlying().(*types.Struct); ok {
				for k := 0; k < ist.NumFields(); k++ {
					if ist.Field(k).Name() == name {
						return c.selectField(x, inner, name)
					}
				}
			}
		}
	}
	c.fail(x, "no field %s in %s", name, t)
	return Val{}
}

func strLit(s string) Val {
	a := "strk"
	for i := 0; i < len(s); i++ {
		a = fmt.Sprintf("(store %s %d %d)", a, i, s[i])
	}
	return sval(a, "0", strconv.Itoa(len(s)))
}

// strEqLit: content equality with a literal, quantifier free
func strEqLit(v Val, lit string) string {
	cs := []string{eq(v.C[2], strconv.Itoa(len(lit)))}
	for i := 0; i < len(lit); i++ {
		cs = append(cs, eq(app("select", v.C[0], add(v.C[1], strconv.Itoa(i))), strconv.Itoa(int(lit[i]))))
	}
	return and(cs...)
}

func litOf(x ast.Expr) (string, bool) {
	if p, ok := x.(*ast.ParenExpr); ok {
		return litOf(p.X)
	}
	if b, ok := x.(*ast.BasicLit); ok && b.Kind == token.STRING {
		s, err := strconv.Unquote(b.Value)
		return s, err == nil
	}
	return "", false
}

func strEq(a, b Val) string {
	return app("streq", a.C[0], a.C[1], a.C[2], b.C[0], b.C[1], b.C[2])
}

// Go integer division truncates toward zero.
func goDiv(a, b string) string {
	return fmt.Sprintf("(ite (>= %s 0) (ite (> %s 0) (div %s %s) (- (div %s (- %s)))) (ite (> %s 0) (- (div (- %s) %s)) (div (- %s) (- %s))))", a, b, a, b, a, b, b, a, b, a, b)
}
func goMod(a, b string) string {
	return fmt.Sprintf("(- %s (* %s %s))", a, b, goDiv(a, b))
}

func (c *Ctx) trBinary(x *ast.BinaryExpr) Val {
	switch x.Op {
	case token.LAND:
		return bval(and(c.boolT(x.X), c.boolT(x.Y)))
	case token.LOR:
		return bval(or(c.boolT(x.X), c.boolT(x.Y)))
	case token.EQL, token.NEQ:
		var t string
		if l, ok := litOf(x.Y); ok {
			t = strEqLit(c.tr(x.X), l)
		} else if l, ok := litOf(x.X); ok {
			t = strEqLit(c.tr(x.Y), l)
		} else {
			a, b := c.tr(x.X), c.tr(x.Y)
			switch {
			case isString(a.T) && isString(b.T):
				t = strEq(a, b)
			case len(a.C) == len(b.C):
				t = valEq(a, b)
			case len(b.C) == 1 && b.C[0] == "0" && len(a.C) > 1: // x == nil for slices/interfaces
				t = eq(a.C[0], "0")
			case len(a.C) == 1 && a.C[0] == "0" && len(b.C) > 1:
				t = eq(b.C[0], "0")
			default:
				c.fail(x, "cannot compare %s and %s", a.T, b.T)
			}
		}
		if x.Op == token.NEQ {
			t = not(t)
		}
		return bval(t)
	case token.LSS, token.LEQ, token.GTR, token.GEQ:
		op := map[token.Token]string{token.LSS: "<", token.LEQ: "<=", token.GTR: ">", token.GEQ: ">="}[x.Op]
		return bval(app(op, c.intT(x.X), c.intT(x.Y)))
	case token.ADD:
		a, b := c.tr(x.X), c.tr(x.Y)
		if isString(a.T) && isString(b.T) && c.E != nil {
			// string concatenation: a fresh string defined by its bytes (memoised per operand pair)
			return c.E.concatSpec(a, b)
		}
		if !isInteger(a.T) || !isInteger(b.T) {
			c.fail(x, "expected integer, got %s + %s", a.T, b.T)
		}
		return ival(add(a.C[0], b.C[0]))
	case token.SUB:
		return ival(sub(c.intT(x.X), c.intT(x.Y)))
	case token.MUL:
		return ival(app("*", c.intT(x.X), c.intT(x.Y)))
	case token.QUO:
		return ival(goDiv(c.intT(x.X), c.intT(x.Y)))
	case token.REM:
		return ival(goMod(c.intT(x.X), c.intT(x.Y)))
	}
	c.fail(x, "unsupported operator %s", x.Op)
	return Val{}
}

func (c *Ctx) trCall(x *ast.CallExpr) Val {
	name := ""
	switch f := x.Fun.(type) {
	case *ast.Ident:
		name = f.Name
	case *ast.ArrayType: // []byte(x)
		v := c.tr(x.Args[0])
		return v
	default:
		c.fail(x, "unsupported call %s", exprString(x))
	}
	args := x.Args
	switch name {
	case "len":
		v := c.tr(args[0])
		switch {
		case isString(v.T):
			return ival(v.C[2])
		}
		if _, ok := v.T.Underlying().(*types.Slice); ok {
			return ival(v.C[2])
		}
		if _, ok := v.T.Underlying().(*types.Map); ok {
			return ival(c.E.mapCard(c.St, v))
		}
		c.fail(x, "len of %s", v.T)
	case "cap":
		v := c.tr(args[0])
		if _, ok := v.T.Underlying().(*types.Chan); ok {
			return ival(app("chancap", v.C[0]))
		}
		return ival(v.C[3])
	case "string", "Pattern", "int", "byte", "rune", "Ref", "SoftRef":
		v := c.tr(args[0])
		if name == "string" || name == "Pattern" || name == "Ref" || name == "SoftRef" {
			if isByteSlice(v.T) {
				return c.E.bytesOf(c.St, v)
			}
			return Val{tString, v.C}
		}
		return Val{tInt, v.C}
	case "bytes":
		v := c.tr(args[0])
		if isString(v.T) {
			return v
		}
		return c.E.bytesOf(c.St, v)
	case "old":
		if c.Old == nil {
			c.fail(x, "old() not available here")
		}
		return c.Old.tr(args[0])
	case "loopentry":
		if c.LoopEntry == nil {
			c.fail(x, "loopentry() outside loop invariant")
		}
		return c.LoopEntry.tr(args[0])
	case "imp":
		return bval(imp(c.boolT(args[0]), c.boolT(args[1])))
	case "iff":
		return bval(eq(c.boolT(args[0]), c.boolT(args[1])))
	case "ite":
		cond := c.boolT(args[0])
		a, b := c.tr(args[1]), c.tr(args[2])
		if len(a.C) != len(b.C) {
			c.fail(x, "ite branches differ")
		}
		out := Val{T: a.T}
		for i := range a.C {
			out.C = append(out.C, ite(cond, a.C[i], b.C[i]))
		}
		return out
	case "forallint":
		id := args[0].(*ast.Ident)
		bv := c.E.freshName("q_" + id.Name)
		inner := c.with(map[string]Val{id.Name: ival(bv)})
		if c.Old != nil {
			inner.Old = c.Old.with(map[string]Val{id.Name: ival(bv)})
		}
		return bval(fmt.Sprintf("(forall ((%s Int)) %s)", bv, inner.boolT(args[1])))
	case "emptyset":
		return Val{tArrB, []string{"((as const (Array Int Bool)) false)"}}
	case "zeroarr":
		return Val{tArr, []string{"((as const (Array Int Int)) 0)"}}
	case "payload":
		v := c.tr(args[0])
		return ival(v.C[1])
	case "subref":
		v := c.tr(args[0])
		k := c.intT(args[1])
		return ival(app("sub", v.C[0], k))
	case "asptr":
		v := c.tr(args[0])
		lit, _ := litOf(args[1])
		return Val{c.E.typeByName(lit), []string{v.C[0]}}
	case "keyid":
		v := c.tr(args[0])
		return ival(mapKeyId(c.E, tString, v))
	case "mapHasId", "mapValId":
		m := c.tr(args[0])
		mt := m.T.Underlying().(*types.Map)
		k := c.intT(args[1])
		has, v := c.E.mapGet(c.St, mt, m.C[0], k)
		if name == "mapHasId" {
			return bval(has)
		}
		return v
	case "held":
		if h, ok := c.St.m["mon:held"]; ok {
			return bval(h)
		}
		return bval("false")
	case "moninv":
		// conjunction of the invariant clauses of the (single) monitor, for owner s
		owner := c.tr(args[0])
		var cs []string
		for _, m := range c.E.W.Specs.Monitors {
			mc := &Ctx{E: c.E, Vars: map[string]Val{"s": owner, "me": ival("me"), "t": ival("me")}, St: c.St, where: c.where + " moninv"}
			for _, inv := range m.Inv {
				cs = append(cs, mc.boolT(inv.Expr))
			}
		}
		return bval(and(cs...))
	case "forallobj":
		// forallobj(q, guard, body): an invariant of every object q with guard, used by explicit unfolding:
		// the fact is instantiated only for objects named by open(x) (`ghost .. :: use open(x)`). The
		// uninterpreted predicate wfopen has no meaning (every interpretation is admitted, including "all
		// objects"), so what is proved holds for the plain universally quantified invariant.
		id := args[0].(*ast.Ident)
		bv := c.E.freshName("q_" + id.Name)
		inner := c.with(map[string]Val{id.Name: ival(bv)})
		if c.Old != nil {
			inner.Old = c.Old.with(map[string]Val{id.Name: ival(bv)})
		}
		guard := inner.boolT(args[1])
		return bval(fmt.Sprintf("(forall ((%s Int)) (! %s :pattern ((wfopen %s))))", bv, imp(and(app("wfopen", bv), guard), inner.boolT(args[2])), bv))
	case "open":
		v := c.tr(args[0])
		return bval(app("wfopen", v.C[0]))
	case "forallge":
		// forallge(q, lo, body): for all q >= lo
		id := args[0].(*ast.Ident)
		lo := c.intT(args[1])
		bv := c.E.freshName("q_" + id.Name)
		inner := c.with(map[string]Val{id.Name: ival(bv)})
		if c.Old != nil {
			inner.Old = c.Old.with(map[string]Val{id.Name: ival(bv)})
		}
		return bval(fmt.Sprintf("(forall ((%s Int)) %s)", bv, imp(app("<=", lo, bv), inner.boolT(args[2]))))
	case "forall", "exists":
		id, ok := args[0].(*ast.Ident)
		if !ok || len(args) != 4 {
			c.fail(x, "%s(i, lo, hi, body)", name)
		}
		lo, hi := c.intT(args[1]), c.intT(args[2])
		bv := "q_" + id.Name
		if c.E != nil {
			bv = c.E.freshName("q_" + id.Name)
		}
		inner := c.with(map[string]Val{id.Name: ival(bv)})
		if c.Old != nil {
			o := c.Old.with(map[string]Val{id.Name: ival(bv)})
			inner.Old = o
		}
		if c.LoopEntry != nil {
			o := c.LoopEntry.with(map[string]Val{id.Name: ival(bv)})
			inner.LoopEntry = o
		}
		body := inner.boolT(args[3])
		// quantify over the absolute index of the first array access (select A (+ O k)):
		// solvers match (select A j) reliably, (select A (+ O k)) not (DESIGN 4, memory notes)
		if off, ok := firstOffset(body, bv); ok {
			jv := bv + "a"
			body = strings.ReplaceAll(body, "(+ "+off+" "+bv+")", jv)
			body = replaceWord(body, bv, "(- "+jv+" "+off+")")
			lo, hi = add(off, lo), add(off, hi)
			bv = jv
		}
		rng := and(app("<=", lo, bv), app("<", bv, hi))
		if name == "forall" {
			return bval(fmt.Sprintf("(forall ((%s Int)) %s)", bv, imp(rng, body)))
		}
		return bval(fmt.Sprintf("(exists ((%s Int)) %s)", bv, and(rng, body)))
	case "unchanged":
		// unchanged("pkg.Type.field", "elems:pkg.Type.field", ...): these heap maps are identical to old()
		if c.Old == nil {
			c.fail(x, "unchanged() needs an old state")
		}
		var cs []string
		for _, a := range args {
			lit, ok := litOf(a)
			if !ok {
				c.fail(x, "unchanged takes string literals")
			}
			var kss [][2]string
			if strings.HasPrefix(lit, "map:") {
				kss = c.E.resolveMapItem(strings.TrimPrefix(lit, "map:"))
			} else {
				kss = c.E.resolveHeapItem(lit)
			}
			for _, ks := range kss {
				if ks[0] == "map.card" {
					continue // shared by all maps
				}
				cs = append(cs, eq(c.E.heapKey(c.St, ks[0], ks[1]), c.E.heapKey(c.Old.St, ks[0], ks[1])))
			}
		}
		return bval(and(cs...))
	case "bytesframe":
		// bytesframe(s): byte memory is unchanged except for the backing array of s
		if c.Old == nil {
			c.fail(x, "bytesframe() needs an old state")
		}
		v := c.tr(args[0])
		k := elemKey(tByte, 0)
		so := "(Array Int (Array Int Int))"
		nm := c.E.heapKey(c.St, k, so)
		om := c.E.heapKey(c.Old.St, k, so)
		return bval(eq(nm, app("store", om, v.C[0], app("select", nm, v.C[0]))))
	case "elemsframe":
		// elemsframe(s): the element memory of s's element type is unchanged except for s's backing array
		if c.Old == nil {
			c.fail(x, "elemsframe() needs an old state")
		}
		v := c.tr(args[0])
		sl, ok := v.T.Underlying().(*types.Slice)
		if !ok {
			c.fail(x, "elemsframe of non-slice")
		}
		var cs []string
		for j, so := range flatten(sl.Elem()) {
			k := elemKey(sl.Elem(), j)
			s2 := "(Array Int (Array Int " + so + "))"
			nm := c.E.heapKey(c.St, k, s2)
			om := c.E.heapKey(c.Old.St, k, s2)
			cs = append(cs, eq(nm, app("store", om, v.C[0], app("select", nm, v.C[0]))))
		}
		return bval(and(cs...))
	case "strelemsbelow":
		// strelemsbelow(b): the elements of every []string backing array whose reference is below b are as at entry
		if c.Old == nil {
			c.fail(x, "strelemsbelow() needs an old state")
		}
		b := c.intT(args[0])
		var cs []string
		for j, so := range flatten(tString) {
			k := elemKey(tString, j)
			s2 := "(Array Int (Array Int " + so + "))"
			nm := c.E.heapKey(c.St, k, s2)
			om := c.E.heapKey(c.Old.St, k, s2)
			q := c.E.freshName("oe")
			cs = append(cs, fmt.Sprintf("(forall ((%s Int)) (! (=> (< %s %s) (= (select %s %s) (select %s %s))) :pattern ((select %s %s))))", q, q, b, nm, q, om, q, nm, q))
		}
		return bval(and(cs...))
	case "strOf":
		// strOf(a, n): the string whose bytes are a[0..n) (a is a ghost array Int->Int)
		a := c.tr(args[0])
		return sval(a.C[0], "0", c.intT(args[1]))
	case "freshbytes":
		// freshbytes(s): s is a newly allocated byte slice (or nil) and no other byte memory changed
		if c.Old == nil {
			c.fail(x, "freshbytes() needs an old state")
		}
		v := c.tr(args[0])
		k := elemKey(tByte, 0)
		so := "(Array Int (Array Int Int))"
		nm := c.E.heapKey(c.St, k, so)
		om := c.E.heapKey(c.Old.St, k, so)
		oa := c.E.heapKey(c.Old.St, "alloc", SInt)
		na := c.E.heapKey(c.St, "alloc", SInt)
		return bval(and(or(eq(v.C[0], "0"), and(app("<=", oa, v.C[0]), app("<", v.C[0], na))), eq(nm, app("store", om, v.C[0], app("select", nm, v.C[0]))), eq(v.C[1], "0")))
	case "isZero":
		v := c.tr(args[0])
		z := zeroVal(v.T)
		var cs []string
		for j := range v.C {
			if flatten(v.T)[j] == SArr {
				continue // content of an empty string is irrelevant
			}
			cs = append(cs, eq(v.C[j], z.C[j]))
		}
		return bval(and(cs...))
	case "nextRef":
		return ival(c.E.heapKey(c.St, "alloc", SInt))
	case "hasKey":
		m := c.tr(args[0])
		mt := m.T.Underlying().(*types.Map)
		var kv Val
		if l, ok := litOf(args[1]); ok {
			kv = strLit(l)
		} else {
			kv = c.tr(args[1])
		}
		has, _ := c.E.mapGet(c.St, mt, m.C[0], mapKeyId(c.E, mt.Key(), kv))
		return bval(has)
	case "same":
		a, b := c.tr(args[0]), c.tr(args[1])
		if len(a.C) != len(b.C) {
			c.fail(x, "same(): shapes differ")
		}
		return bval(valEq(a, b))
	case "store":
		a := c.tr(args[0])
		i := c.intT(args[1])
		v := c.tr(args[2])
		return Val{a.T, []string{app("store", a.C[0], i, v.C[0])}}
	case "implements":
		// implements(ifaceValue, "pkg.Interface"): the dynamic type of the value implements the interface
		// (the same uninterpreted predicate a type assertion to that interface tests)
		v := c.tr(args[0])
		lit, _ := litOf(args[1])
		return bval(c.E.implementsPred(c.E.typeByName(lit), v.C[0]))
	case "typeIs":
		// typeIs(ifaceValue, "pkg.Type") / typeIs(v, "*pkg.Type")
		v := c.tr(args[0])
		lit, _ := litOf(args[1])
		return bval(eq(v.C[0], c.E.tagByName(lit)))
	case "isNil":
		v := c.tr(args[0])
		return bval(eq(v.C[0], "0"))
	case "ptrOf":
		// payload of an interface value holding a pointer
		v := c.tr(args[0])
		lit, _ := litOf(args[1])
		return Val{c.E.typeByName(lit), []string{v.C[1]}}
	case "unbox":
		v := c.tr(args[0])
		lit, _ := litOf(args[1])
		return c.E.boxLoad(c.St, c.E.typeByName(lit), v.C[1])
	case "ref":
		v := c.tr(args[0])
		return ival(v.C[0])
	}
	if c.E != nil {
		if p, ok := c.E.W.Specs.Preds[name]; ok {
			if len(args) != len(p.Params) {
				c.fail(x, "pred %s takes %d args", name, len(p.Params))
			}
			vars := map[string]Val{}
			for i, a := range args {
				vars[p.Params[i].Name] = c.tr(a)
			}
			inner := &Ctx{E: c.E, Vars: vars, St: c.St, where: c.where + " pred " + name}
			if c.Old != nil {
				ovars := map[string]Val{}
				for i, a := range args {
					// arguments are values; old() inside the body refers to the old heap
					ovars[p.Params[i].Name] = c.tr(a)
				}
				inner.Old = &Ctx{E: c.E, Vars: ovars, St: c.Old.St, where: c.where + " pred " + name + " old"}
			}
			return inner.tr(p.Body)
		}
	}
	if c.E != nil {
		if l, ok := c.E.W.Specs.Lemmas[name]; ok {
			return bval(c.lemmaInstance(l, x))
		}
	}
	// spec function
	if c.E != nil {
		if sf, ok := c.E.W.Specs.SpecFuncs[name]; ok {
			if len(args) != len(sf.Params) {
				c.fail(x, "spec func %s takes %d args", name, len(sf.Params))
			}
			var flat []string
			for i, a := range args {
				v := c.tr(a)
				want := specType(sf.Params[i].Type)
				if isByteSlice(v.T) && isString(want) {
					v = c.E.bytesOf(c.St, v)
				}
				if len(v.C) != len(flatten(want)) {
					c.fail(x, "argument %d of %s: got %s want %s", i, name, v.T, sf.Params[i].Type)
				}
				flat = append(flat, v.C...)
			}
			c.E.useSpec(name)
			rt := specType(sf.Ret)
			if len(flat) == 0 {
				return Val{rt, []string{name}}
			}
			return Val{rt, []string{app(name, flat...)}}
		}
	}
	c.fail(x, "unknown function %s", name)
	return Val{}
}

// firstOffset finds O in the first "(select X (+ O k))" of body, O not mentioning k.
func firstOffset(body, k string) (string, bool) {
	key := " " + k + ")"
	idx := 0
	for {
		i := strings.Index(body[idx:], key)
		if i < 0 {
			return "", false
		}
		i += idx
		// walk back to the matching "(+ "
		depth := 0
		j := i
		for j >= 0 {
			if body[j] == ')' {
				depth++
			} else if body[j] == '(' {
				if depth == 0 {
					break
				}
				depth--
			}
			j--
		}
		if j >= 0 && strings.HasPrefix(body[j:], "(+ ") {
			off := body[j+3 : i]
			if balanced(off) && !containsWord(off, k) && off != "" {
				// must be the index of a select: "(select X (+ O k))"
				pre := strings.TrimRight(body[:j], " ")
				if strings.Contains(pre[max(0, len(pre)-200):], "(select ") {
					return off, true
				}
			}
		}
		idx = i + len(key)
	}
}

func containsWord(s, w string) bool {
	return replaceWord(s, w, "\x00") != s
}

// replaceWord replaces whole-token occurrences of w (delimited by space or parens).
func replaceWord(s, w, by string) string {
	var b strings.Builder
	i := 0
	for i < len(s) {
		j := strings.Index(s[i:], w)
		if j < 0 {
			b.WriteString(s[i:])
			break
		}
		j += i
		before := j == 0 || s[j-1] == ' ' || s[j-1] == '('
		after := j+len(w) == len(s) || s[j+len(w)] == ' ' || s[j+len(w)] == ')'
		b.WriteString(s[i:j])
		if before && after {
			b.WriteString(by)
		} else {
			b.WriteString(w)
		}
		i = j + len(w)
	}
	return b.String()
}

func max(a, b int) int {
	if a > b {
		return a
	}
	return b
}

// concatSpec: the concatenation of two strings in a contract expression.
func (e *Enc) concatSpec(a, b Val) Val {
	// the memo key uses the defining expressions of named registers, so that the code's
	// concatenations and the contract's are the same term
	unalias := func(cs []string) string {
		var out []string
		for _, c := range cs {
			for i := 0; i < 4; i++ {
				if d, ok := e.alias[c]; ok {
					c = d
				} else {
					break
				}
			}
			out = append(out, c)
		}
		return strings.Join(out, " ")
	}
	key := unalias(a.C) + " ++ " + unalias(b.C)
	if e.catMemo == nil {
		e.catMemo = map[string]Val{}
	}
	if v, ok := e.catMemo[key]; ok {
		return v
	}
	arr := e.fresh("scat", SArr)
	n := add(a.C[2], b.C[2])
	q := e.freshName("k")
	e.def(fmt.Sprintf("(forall ((%s Int)) (! (=> (and (<= 0 %s) (< %s %s)) (= (select %s %s) (ite (< %s %s) (select %s (+ %s %s)) (select %s (+ %s (- %s %s)))))) :pattern ((select %s %s))))",
		q, q, q, n, arr, q, q, a.C[2], a.C[0], a.C[1], q, b.C[0], b.C[1], q, a.C[2], arr, q))
	v := Val{tString, []string{arr, "0", n}}
	e.catMemo[key] = v
	return v
}
