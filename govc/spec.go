package main

// Contract files: parsing of //@ blocks (DESIGN.md 3.1).

import (
	"fmt"
	"go/ast"
	"go/parser"
	"os"
	"path/filepath"
	"regexp"
	"sort"
	"strconv"
	"strings"
)

type Param struct {
	Name string
	Type string
}

type Clause struct {
	Label string
	Src   string
	Expr  ast.Expr
	File  string
	Line  int
}

type LoopSpec struct {
	Inv []Clause
	Dec *Clause
}

// GhostStmt is a ghost statement anchored at a program point of a function.
type GhostStmt struct {
	Anchor string // e.g. "loop 1 body", "call reply#1 before", "entry"
	Kind   string // assert | use | set
	Target string // ghost variable assigned by set
	Clause Clause
}

type FuncSpec struct {
	Key             string // pkg.Recv.Name or pkg.Name
	Pkg             string
	Header          string
	RecvName        string
	Params          []Param
	Results         []Param
	Requires        []Clause
	Ensures         []Clause
	XEnsures        []Clause // ensures_on_panic; empty = must not panic
	MayPanic        bool     // callee contract: may exit exceptionally
	Loops           map[int]*LoopSpec
	Trusted         bool
	Modifies        []string
	Witness         []string
	Domain          string
	Ghost           []GhostStmt
	Asserts         []Clause
	File            string
	Line            int
	Props           []string // property ids this contract serves
	NoBody          bool
	Thread          string            // "any": may run on a goroutine that races with Shutdown: shared fields are unstable
	Applies         string            // higher-order dependency: runs this closure parameter once
	Rollback        []string          // ghost variables restored if the applied closure returns an error
	AnyArgs         bool              // callback contract applicable to any signature (arguments ignored)
	Opaque          []string          // spec functions whose definition is hidden in this function's queries
	Holds           string            // monitor held at entry and exit (critical section spans the call)
	Dead            []string          // canaries that must be unreachable (proved, not assumed)
	Callbacks       map[string]string // callee expr -> callback contract name
	CallSites       map[string]string // call site -> overriding contract key
	CommitMayFail   bool
	Preserves       []Clause
	Async           string
	StrKeysPairwise bool
	Invokes         string
}

type SpecFunc struct {
	Name     string
	Params   []Param
	Ret      string
	Body     ast.Expr
	Dec      ast.Expr
	Src      string
	File     string
	Line     int
	Uninterp bool
	Native   string // Go expression implementing an uninterpreted function at replay time
}

type Lemma struct {
	Name     string
	Params   []Param
	Requires []Clause
	Ensures  []Clause
	Dec      *Clause
	Trigger  *Clause  // if set, the proved lemma is handed to every query as a quantified axiom with this pattern
	Uses     []Clause // explicit instances: other lemma calls or recursive ones, "L(args) if cond"
	Trusted  bool
	File     string
	Line     int
	Props    []string
}

type Pred struct {
	Name   string
	Params []Param
	Body   ast.Expr
	Src    string
}

// Monitor: a mutex with the state it protects, its invariant and rely (DESIGN.md 3.6).
type Monitor struct {
	Name     string
	Lock     string   // pkg.Type.field of the sync.Mutex
	Cond     string   // pkg.Type.field of the sync.Cond bound to it (optional)
	Protects []string // heap items (resolveHeapItem syntax)
	Ghost    []string // ghost variables owned by the monitor (havoced at Lock)
	Shared   []string // unprotected fields written by other threads at any time (DESIGN 3.6)
	Inv      []Clause // over `s` (the object holding the lock)
	Rely     []Clause // two-state, over `s` and thread `t`
	File     string
	Line     int
}

type Specs struct {
	Monitors  map[string]*Monitor
	GhostVars map[string]string // name -> spec type
	Preds     map[string]*Pred
	Funcs     map[string]*FuncSpec
	SpecFuncs map[string]*SpecFunc
	Lemmas    map[string]*Lemma
	Files     []string
	Trusted   []string // text of every trusted clause, for evidence
}

var headerRe = regexp.MustCompile(`^func\s*(?:\(\s*(\w+)\s+(\*?[\w.]+)\s*\))?\s*([\w.$#]+)\s*\((.*?)\)\s*(.*)$`)

func splitParams(s string) []Param {
	s = strings.TrimSpace(s)
	if s == "" {
		return nil
	}
	var parts []string
	depth := 0
	last := 0
	for i, c := range s {
		switch c {
		case '(', '[', '{':
			depth++
		case ')', ']', '}':
			depth--
		case ',':
			if depth == 0 {
				parts = append(parts, s[last:i])
				last = i + 1
			}
		}
	}
	parts = append(parts, s[last:])
	var out []Param
	for _, p := range parts {
		p = strings.TrimSpace(p)
		f := strings.SplitN(p, " ", 2)
		if len(f) == 1 {
			out = append(out, Param{Name: f[0], Type: ""})
		} else {
			out = append(out, Param{Name: f[0], Type: strings.TrimSpace(f[1])})
		}
	}
	// "a, b int" style: propagate types backwards
	for i := len(out) - 2; i >= 0; i-- {
		if out[i].Type == "" {
			out[i].Type = out[i+1].Type
		}
	}
	return out
}

func parseClause(text, file string, line int) Clause {
	text = strings.TrimSpace(text)
	c := Clause{Src: text, File: file, Line: line}
	// optional "label: expr"
	if m := regexp.MustCompile(`^([A-Za-z_][\w.\-]*):\s+(.*)$`).FindStringSubmatch(text); m != nil {
		c.Label = m[1]
		text = m[2]
		c.Src = text
	}
	e, err := parser.ParseExpr(text)
	if err != nil {
		panic(fmt.Sprintf("%s:%d: cannot parse contract expression %q: %v", file, line, text, err))
	}
	c.Expr = e
	return c
}

var keywords = map[string]bool{"spec": true, "func": true, "trusted": true, "lemma": true, "requires": true,
	"ensures": true, "ensures_on_panic": true, "may_panic": true, "modifies": true, "loop": true, "decreases": true,
	"=": true, "witness": true, "ghost": true, "use": true, "assert": true, "replay_domain": true, "props": true,
	"uninterpreted": true, "nobody": true, "callback": true, "end": true, "trigger": true, "ghostvar": true, "pred": true, "dead": true, "native": true, "callsite": true, "monitor": true, "lock": true, "cond": true, "protects": true, "owns": true, "invariant": true, "rely": true, "holds": true, "shared": true, "thread": true, "opaque": true, "anyargs": true, "applies": true, "preserves": true, "invokes": true, "strkeys": true, "async": true}

// LoadSpecs reads every zz_contracts_verif.go below root plus extra files.
func LoadSpecs(files []string) *Specs {
	sp := &Specs{Monitors: map[string]*Monitor{}, GhostVars: map[string]string{}, Preds: map[string]*Pred{}, Funcs: map[string]*FuncSpec{}, SpecFuncs: map[string]*SpecFunc{}, Lemmas: map[string]*Lemma{}}
	for _, f := range files {
		sp.loadFile(f)
	}
	return sp
}

type rawLine struct {
	text string
	line int
}

func (sp *Specs) loadFile(file string) {
	data, err := os.ReadFile(file)
	if err != nil {
		panic(err)
	}
	sp.Files = append(sp.Files, file)
	pkg := ""
	var lines []rawLine
	for i, l := range strings.Split(string(data), "\n") {
		t := strings.TrimSpace(l)
		if strings.HasPrefix(t, "package ") && pkg == "" {
			pkg = strings.TrimSpace(strings.TrimPrefix(t, "package "))
		}
		if strings.HasPrefix(t, "//@pkg ") {
			pkg = strings.TrimSpace(strings.TrimPrefix(t, "//@pkg "))
			continue
		}
		if !strings.HasPrefix(t, "//@") {
			continue
		}
		t = strings.TrimSpace(strings.TrimPrefix(t, "//@"))
		if t == "" || strings.HasPrefix(t, "#") {
			continue
		}
		// join continuation lines
		first := strings.Fields(t)[0]
		if !keywords[first] && len(lines) > 0 {
			lines[len(lines)-1].text += " " + t
			continue
		}
		lines = append(lines, rawLine{t, i + 1})
	}
	base := filepath.Base(filepath.Dir(file)) + "/" + filepath.Base(file)
	var curF *FuncSpec
	var curS *SpecFunc
	var curL *Lemma
	var curM *Monitor
	var props []string
	for _, rl := range lines {
		t := rl.text
		first := strings.Fields(t)[0]
		rest := strings.TrimSpace(strings.TrimPrefix(t, first))
		switch first {
		case "props":
			props = strings.Fields(strings.ReplaceAll(rest, ",", " "))
			if curF != nil {
				curF.Props = props
			}
		case "monitor":
			curF, curS, curL = nil, nil, nil
			curM = &Monitor{Name: strings.TrimSpace(rest), File: base, Line: rl.line}
			sp.Monitors[curM.Name] = curM
		case "lock":
			curM.Lock = strings.TrimSpace(rest)
		case "cond":
			curM.Cond = strings.TrimSpace(rest)
		case "protects":
			for _, p := range strings.Split(rest, ",") {
				curM.Protects = append(curM.Protects, strings.TrimSpace(p))
			}
		case "shared":
			for _, p := range strings.Split(rest, ",") {
				curM.Shared = append(curM.Shared, strings.TrimSpace(p))
			}
		case "applies":
			// applies <param> [rollback <ghost>,...]: the function runs the closure passed as <param> exactly once
			// and returns its error; the listed ghost state is restored when that error is non-nil
			f := strings.Fields(strings.ReplaceAll(rest, ",", " "))
			mustF(curF, base, rl.line).Applies = f[0]
			for i := 1; i < len(f); i++ {
				switch f[i] {
				case "rollback":
				case "commit":
					// the call may fail after the closure returned nil (commit error): then too the state is restored
					curF.CommitMayFail = true
				default:
					curF.Rollback = append(curF.Rollback, f[i])
				}
			}
		case "anyargs":
			mustF(curF, base, rl.line).AnyArgs = true
		case "opaque":
			mustF(curF, base, rl.line).Opaque = append(curF.Opaque, strings.Fields(rest)...)
		case "thread":
			mustF(curF, base, rl.line).Thread = strings.TrimSpace(rest)
		case "owns":
			for _, p := range strings.Split(rest, ",") {
				curM.Ghost = append(curM.Ghost, strings.TrimSpace(p))
			}
		case "invariant":
			curM.Inv = append(curM.Inv, parseClause(rest, base, rl.line))
		case "rely":
			curM.Rely = append(curM.Rely, parseClause(rest, base, rl.line))
		case "holds":
			mustF(curF, base, rl.line).Holds = strings.TrimSpace(rest)
		case "end":
			curF, curS, curL = nil, nil, nil
		case "native":
			if curS == nil {
				panic(fmt.Sprintf("%s:%d: native outside spec func", base, rl.line))
			}
			curS.Native = rest
		case "ghostvar":
			f := strings.Fields(rest)
			if len(f) != 2 {
				panic(fmt.Sprintf("%s:%d: ghostvar <name> <type>", base, rl.line))
			}
			sp.GhostVars[f[0]] = f[1]
		case "pred":
			// pred name(params) = expr
			i := strings.Index(rest, "=")
			m := headerRe.FindStringSubmatch("func " + strings.TrimSpace(rest[:i]))
			if m == nil {
				panic(fmt.Sprintf("%s:%d: bad pred header", base, rl.line))
			}
			c := parseClause(rest[i+1:], base, rl.line)
			sp.Preds[m[3]] = &Pred{Name: m[3], Params: splitParams(m[4]), Body: c.Expr, Src: c.Src}
			curF, curS, curL = nil, nil, nil
		case "spec", "uninterpreted":
			curF, curL, curM = nil, nil, nil
			m := headerRe.FindStringSubmatch(strings.TrimSpace(rest))
			if m == nil {
				panic(fmt.Sprintf("%s:%d: bad spec func header %q", base, rl.line, t))
			}
			curS = &SpecFunc{Name: m[3], Params: splitParams(m[4]), Ret: strings.TrimSpace(m[5]), File: base, Line: rl.line, Uninterp: first == "uninterpreted"}
			if _, dup := sp.SpecFuncs[curS.Name]; dup {
				panic(fmt.Sprintf("%s:%d: duplicate spec func %s", base, rl.line, curS.Name))
			}
			sp.SpecFuncs[curS.Name] = curS
		case "lemma":
			curF, curS = nil, nil
			tr := false
			if strings.HasPrefix(rest, "trusted ") {
				tr = true
				rest = strings.TrimPrefix(rest, "trusted ")
			}
			m := headerRe.FindStringSubmatch("func " + strings.TrimSpace(rest))
			if m == nil {
				panic(fmt.Sprintf("%s:%d: bad lemma header %q", base, rl.line, t))
			}
			curL = &Lemma{Name: m[3], Params: splitParams(m[4]), File: base, Line: rl.line, Trusted: tr, Props: props}
			sp.Lemmas[curL.Name] = curL
			if tr {
				sp.Trusted = append(sp.Trusted, "lemma "+curL.Name+" ("+base+")")
			}
		case "func", "trusted":
			curS, curL, curM = nil, nil, nil
			hdr := t
			trusted := false
			if first == "trusted" {
				trusted = true
				hdr = strings.TrimSpace(rest)
			}
			m := headerRe.FindStringSubmatch(hdr)
			if m == nil {
				panic(fmt.Sprintf("%s:%d: bad func header %q", base, rl.line, t))
			}
			m = rebalanceHeader(hdr, m)
			fs := &FuncSpec{Pkg: pkg, Header: hdr, Loops: map[int]*LoopSpec{}, Trusted: trusted, File: base, Line: rl.line, Props: props, Callbacks: map[string]string{}, CallSites: map[string]string{}}
			name := m[3]
			if m[2] != "" {
				fs.RecvName = m[1]
				rt := strings.TrimPrefix(m[2], "*")
				if rt == "error" {
					fs.Key = "error." + name
				} else if strings.Contains(rt, ".") {
					fs.Key = rt + "." + name
				} else {
					fs.Key = pkg + "." + rt + "." + name
				}
				fs.Params = append([]Param{{Name: m[1], Type: m[2]}}, splitParams(m[4])...)
			} else {
				if isQualified(name) {
					fs.Key = name
				} else {
					fs.Key = pkg + "." + name
				}
				fs.Params = splitParams(m[4])
			}
			r := strings.TrimSpace(m[5])
			if strings.HasPrefix(r, "(") {
				fs.Results = splitParams(strings.TrimSuffix(strings.TrimPrefix(r, "("), ")"))
			} else if r != "" {
				fs.Results = []Param{{Name: "res", Type: r}}
			}
			if _, dup := sp.Funcs[fs.Key]; dup {
				panic(fmt.Sprintf("%s:%d: duplicate contract for %s", base, rl.line, fs.Key))
			}
			sp.Funcs[fs.Key] = fs
			curF = fs
			if trusted {
				sp.Trusted = append(sp.Trusted, hdr+" ("+base+")")
			}
		case "=":
			if curS == nil {
				panic(fmt.Sprintf("%s:%d: '=' outside spec func", base, rl.line))
			}
			c := parseClause(rest, base, rl.line)
			curS.Body = c.Expr
			curS.Src = rest
		case "decreases":
			c := parseClause(rest, base, rl.line)
			switch {
			case curS != nil:
				curS.Dec = c.Expr
			case curL != nil:
				curL.Dec = &c
			default:
				panic(fmt.Sprintf("%s:%d: stray decreases", base, rl.line))
			}
		case "requires":
			c := parseClause(rest, base, rl.line)
			if curL != nil {
				curL.Requires = append(curL.Requires, c)
			} else {
				mustF(curF, base, rl.line).Requires = append(curF.Requires, c)
			}
		case "preserves":
			// preserves <inv>: required at entry and ensured at exit (an invariant of the captured state);
			// it is what a caller knows after code it does not see has invoked the closure any number of times
			c := parseClause(rest, base, rl.line)
			mustF(curF, base, rl.line).Requires = append(curF.Requires, c)
			curF.Ensures = append(curF.Ensures, c)
			curF.Preserves = append(curF.Preserves, c)
		case "strkeys":
			// strkeys pairwise: relate the identities of all computed map/store keys of this function by content
			mustF(curF, base, rl.line).StrKeysPairwise = true
		case "async":
			// async <param>: the function value passed as <param> runs later, possibly on another goroutine
			mustF(curF, base, rl.line).Async = strings.TrimSpace(rest)
		case "invokes":
			// invokes <param>: the function may call the closure passed as <param> any number of times
			mustF(curF, base, rl.line).Invokes = strings.TrimSpace(rest)
		case "ensures":
			c := parseClause(rest, base, rl.line)
			if curL != nil {
				curL.Ensures = append(curL.Ensures, c)
			} else {
				mustF(curF, base, rl.line).Ensures = append(curF.Ensures, c)
			}
		case "ensures_on_panic":
			c := parseClause(rest, base, rl.line)
			mustF(curF, base, rl.line).XEnsures = append(curF.XEnsures, c)
			curF.MayPanic = true
		case "may_panic":
			mustF(curF, base, rl.line).MayPanic = true
		case "dead":
			if strings.HasPrefix(rest, "src:") {
				mustF(curF, base, rl.line).Dead = append(curF.Dead, rest)
			} else {
				mustF(curF, base, rl.line).Dead = append(curF.Dead, strings.Fields(rest)...)
			}
		case "nobody":
			mustF(curF, base, rl.line).NoBody = true
		case "modifies":
			for _, m := range strings.Split(rest, ",") {
				mustF(curF, base, rl.line).Modifies = append(curF.Modifies, strings.TrimSpace(m))
			}
		case "callsite":
			// callsite <short>#<k> <contract key>: this call uses another (trusted) contract
			f := strings.Fields(rest)
			if len(f) != 2 {
				panic(fmt.Sprintf("%s:%d: callsite <callee>#<k> <contract>", base, rl.line))
			}
			mustF(curF, base, rl.line).CallSites[f[0]] = f[1]
		case "callback":
			// callback <callee-text> <contract-name>
			f := strings.Fields(rest)
			if len(f) != 2 {
				panic(fmt.Sprintf("%s:%d: callback <callee> <contract>", base, rl.line))
			}
			mustF(curF, base, rl.line).Callbacks[f[0]] = f[1]
		case "trigger":
			c := parseClause(rest, base, rl.line)
			if curL == nil {
				panic(fmt.Sprintf("%s:%d: trigger outside lemma", base, rl.line))
			}
			curL.Trigger = &c
		case "use":
			c := parseClause(rest, base, rl.line)
			if curL != nil {
				curL.Uses = append(curL.Uses, c)
			} else {
				panic(fmt.Sprintf("%s:%d: 'use' only inside lemma; in functions write 'ghost <anchor> use ...'", base, rl.line))
			}
		case "loop":
			f := strings.Fields(rest)
			if len(f) < 3 {
				panic(fmt.Sprintf("%s:%d: bad loop clause", base, rl.line))
			}
			n, err := strconv.Atoi(f[0])
			if err != nil {
				panic(fmt.Sprintf("%s:%d: bad loop ordinal %q", base, rl.line, f[0]))
			}
			ls := mustF(curF, base, rl.line).Loops[n]
			if ls == nil {
				ls = &LoopSpec{}
				curF.Loops[n] = ls
			}
			body := strings.TrimSpace(strings.TrimPrefix(strings.TrimSpace(strings.TrimPrefix(rest, f[0])), f[1]))
			c := parseClause(body, base, rl.line)
			switch f[1] {
			case "invariant":
				ls.Inv = append(ls.Inv, c)
			case "decreases":
				ls.Dec = &c
			default:
				panic(fmt.Sprintf("%s:%d: loop clause must be invariant or decreases", base, rl.line))
			}
		case "ghost":
			// ghost <anchor...> : (assert|use) expr
			i := strings.Index(rest, "::")
			if i < 0 {
				panic(fmt.Sprintf("%s:%d: ghost <anchor> :: assert|use <expr>", base, rl.line))
			}
			anchor := strings.TrimSpace(rest[:i])
			body := strings.TrimSpace(rest[i+2:])
			kf := strings.Fields(body)[0]
			if kf != "assert" && kf != "use" && kf != "set" {
				panic(fmt.Sprintf("%s:%d: ghost statement must be assert, use or set", base, rl.line))
			}
			btxt := strings.TrimSpace(strings.TrimPrefix(body, kf))
			target := ""
			if kf == "set" {
				j := strings.Index(btxt, "=")
				target = strings.TrimSpace(btxt[:j])
				btxt = strings.TrimSpace(btxt[j+1:])
			}
			c := parseClause(btxt, base, rl.line)
			mustF(curF, base, rl.line).Ghost = append(curF.Ghost, GhostStmt{Anchor: anchor, Kind: kf, Clause: c, Target: target})
		case "witness":
			mustF(curF, base, rl.line).Witness = append(curF.Witness, rest)
		case "replay_domain":
			mustF(curF, base, rl.line).Domain = rest
		case "assert":
			panic(fmt.Sprintf("%s:%d: bare assert not allowed; use ghost <anchor> :: assert", base, rl.line))
		}
	}
}

var knownPkgs = map[string]bool{"strings": true, "bytes": true, "json": true, "errors": true, "fmt": true, "strconv": true,
	"sync": true, "atomic": true, "time": true, "nats": true, "badger": true, "url": true, "sort": true, "utf8": true,
	"taskqueue": true, "timerqueue": true, "keylock": true, "res": true, "store": true, "badgerstore": true,
	"mockstore": true, "resprot": true, "reflect": true, "debug": true, "callback": true, "error": true, "builtin": true, "http": true, "xid": true, "os": true, "logger": true}

func isQualified(name string) bool {
	i := strings.Index(name, ".")
	return i > 0 && knownPkgs[name[:i]]
}

func mustF(f *FuncSpec, file string, line int) *FuncSpec {
	if f == nil {
		panic(fmt.Sprintf("%s:%d: clause outside func contract", file, line))
	}
	return f
}

func (sp *Specs) sortedFuncKeys() []string {
	var ks []string
	for k := range sp.Funcs {
		ks = append(ks, k)
	}
	sort.Strings(ks)
	return ks
}

// scan for forbidden escape hatches (DESIGN 7)
func (sp *Specs) scanAssumptions() []string {
	out := append([]string{}, sp.Trusted...)
	sort.Strings(out)
	return out
}

// rebalanceHeader corrects the parameter/result split of a header whose parameter types contain
// parentheses (func types): the parameter list ends at the parenthesis matching its opening one.
func rebalanceHeader(hdr string, m []string) []string {
	idx := headerRe.FindStringSubmatchIndex(hdr)
	if idx == nil || idx[8] < 0 {
		return m
	}
	open := idx[8] - 1 // position of '(' before group 4
	depth := 0
	for i := open; i < len(hdr); i++ {
		switch hdr[i] {
		case '(':
			depth++
		case ')':
			depth--
			if depth == 0 {
				out := append([]string{}, m...)
				out[4] = hdr[open+1 : i]
				out[5] = strings.TrimSpace(hdr[i+1:])
				return out
			}
		}
	}
	return m
}
