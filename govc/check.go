package main

// Property-level driver: `govc check <ID> --tier quick|thorough [--replay file]`.

import (
	"encoding/json"
	"fmt"
	"os"
	"path/filepath"
	"regexp"
	"sort"
	"strconv"
	"strings"
	"time"
)

type PropSpec struct {
	ID             string            `json:"id"`
	Functions      []string          `json:"functions"`
	Lemmas         []string          `json:"lemmas"`
	Required       []string          `json:"required_obligations"` // names that must be generated (vacuity guard)
	NotDecided     []string          `json:"not_decided"`
	Assumptions    []string          `json:"assumptions"`
	Bounded        []BoundedSpec     `json:"bounded"`
	Scenarios      map[string]string `json:"scenarios"` // obligation regexp -> scenario test file under /verif/replay
	QuickSecs      int               `json:"quick_timeout_s"`
	ThoroughSecs   int               `json:"thorough_timeout_s"`
	MinObligations int               `json:"min_obligations"`
	Exclude        []string          `json:"exclude_obligations"` // decided under another property
}

type BoundedSpec struct {
	Name     string `json:"name"`
	Function string `json:"function"` // contract key whose requires/ensures are checked at run time
	Alpha    string `json:"alphabet"`
	Quick    int    `json:"quick_len"`
	Thorough int    `json:"thorough_len"`
	Pkg      string `json:"pkg"` // package dir relative to /repo
	PkgName  string `json:"pkg_name"`
	TestFile string `json:"test_file"` // hand-written bounded harness under /verif/replay (optional)
	Bound    string `json:"bound"`
}

type Finding struct {
	Property   string `json:"property"`
	Obligation string `json:"obligation"`
	Site       string `json:"site"`
	Status     string `json:"status"`
	What       string `json:"what"`
}

type KnownFindings struct {
	Findings []Finding `json:"findings"`
	Fixed    []string  `json:"fixed"`
}

type ReplayFile struct {
	Property   string            `json:"property"`
	Obligation string            `json:"obligation"`
	Function   string            `json:"function"`
	Where      string            `json:"where"`
	Class      string            `json:"class"`
	Clause     string            `json:"clause"`
	Status     string            `json:"solver_status"`
	Backend    string            `json:"backend"`
	SolverOut  string            `json:"solver_output"`
	Model      map[string]string `json:"model,omitempty"`
	Inputs     map[string]string `json:"inputs,omitempty"`
	PkgRel     string            `json:"pkg_rel,omitempty"`
	TestSource string            `json:"test_source,omitempty"`
	TestOutput string            `json:"test_output,omitempty"`
	Outcome    string            `json:"outcome"` // reproduced | no-failing-input-found
	SMTFile    string            `json:"smt_file,omitempty"`
	Note       string            `json:"note,omitempty"`
}

func loadJSON(path string, v interface{}) error {
	b, err := os.ReadFile(path)
	if err != nil {
		return err
	}
	return json.Unmarshal(b, v)
}

func pkgRelOf(key string) (rel, name string) {
	switch strings.SplitN(key, ".", 2)[0] {
	case "res":
		return ".", "res"
	case "store":
		return "store", "store"
	case "badgerstore":
		return "store/badgerstore", "badgerstore"
	case "mockstore":
		return "store/mockstore", "mockstore"
	case "resprot":
		return "resprot", "resprot"
	}
	return ".", "res"
}

func engineError(format string, a ...interface{}) {
	fmt.Printf("ENGINE-ERROR: "+format+"\n", a...)
	os.Exit(2)
}

func checkMain(args []string) {
	if len(args) < 1 {
		engineError("usage: govc check <ID> [--tier quick|thorough] [--replay file]")
	}
	id := args[0]
	tier := os.Getenv("VERIF_TIER")
	if tier == "" {
		tier = "quick"
	}
	replayPath := ""
	for i := 1; i < len(args); i++ {
		switch args[i] {
		case "--tier":
			i++
			tier = args[i]
		case "--replay":
			i++
			replayPath = args[i]
		}
	}
	seed := 0
	if s := os.Getenv("VERIF_SEED"); s != "" {
		seed, _ = strconv.Atoi(s)
	}
	verif := "/verif"
	if v := os.Getenv("VERIF_ROOT"); v != "" {
		verif = v
	}
	repo := "/repo"
	if replayPath != "" {
		replayMain(id, replayPath, repo)
		return
	}
	t0 := time.Now()
	var ps PropSpec
	if err := loadJSON(filepath.Join(verif, "specs", id+".json"), &ps); err != nil {
		engineError("cannot read property spec: %v", err)
	}
	var kf KnownFindings
	loadJSON(filepath.Join(verif, "known_findings.json"), &kf)
	secs := ps.QuickSecs
	if secs == 0 {
		secs = 10
	}
	if tier == "thorough" {
		secs = ps.ThoroughSecs
		if secs == 0 {
			secs = 60
		}
	}
	w := loadWorld(repo)
	tLoad := time.Since(t0).Seconds()
	dir, _ := os.MkdirTemp("", "govc-"+id)
	defer os.RemoveAll(dir)

	var reps []*FuncReport
	encs := map[string]*Enc{}
	var all []*Obligation
	for _, key := range ps.Functions {
		rep, e := verifyFuncE(w, key)
		reps = append(reps, rep)
		encs[key] = e
		all = append(all, rep.Obs...)
	}
	lemSet := append([]string{}, ps.Lemmas...)
	for _, rep := range reps {
		lemSet = append(lemSet, rep.Lemmas...)
	}
	lemObs := proveLemmas(w, lemSet)
	all = append(all, lemObs...)
	solveAll(all, dir, secs, tier == "thorough", 10)

	// ---- verdicts ----
	violations := 0
	var lines []string
	var undecidedFns []map[string]string
	nOb, nDis := 0, 0
	byBackend := map[string][2]float64{}
	nCanary, nCanaryReach := 0, 0
	var failed []*Obligation
	names := map[string]bool{}
	for _, rep := range reps {
		if rep.Status != "ok" {
			undecidedFns = append(undecidedFns, map[string]string{"function": rep.Key, "status": rep.Status, "reason": rep.Reason})
			lines = append(lines, fmt.Sprintf("UNDECIDED function=%s reason=%s (%s)", rep.Key, rep.Status, rep.Reason))
		}
	}
	var decidedElsewhere []string
	failedFn := map[string]bool{}
	for _, o := range all {
		if !o.Canary && o.Status != "unsat" {
			failedFn[o.Func] = true
		}
	}
	status := map[string]string{}
	for _, o := range all {
		status[o.Name] = o.Status
	}
	for _, o := range all {
		names[o.Name] = true
		if o.Canary {
			if strings.Contains(o.Name, "#canary.before.") {
				continue // only consulted for its paired after-canary
			}
			nCanary++
			if o.Status == "unsat" && strings.Contains(o.Name, "#canary.after.") && status[strings.Replace(o.Name, "#canary.after.", "#canary.before.", 1)] == "unsat" {
				continue // the call site itself is unreachable (dead code): the contract is not the cause
			}
			if o.Status == "unsat" && inDeadRegion(o, all) {
				continue // dominated by a point proved unreachable (declared `dead`)
			}
			if o.Status == "unsat" && !failedFn[o.Func] {
				// (code after a failed assertion is vacuously unreachable in the encoding: not an engine fault)
				engineError("vacuity: reachability canary %s is unsat (contradictory assumptions)", o.Name)
			}
			if o.Status == "sat" {
				nCanaryReach++
			}
			continue
		}
		excluded := false
		for _, pat := range ps.Exclude {
			if ok, _ := regexp.MatchString(pat, o.Name); ok {
				excluded = true
			}
		}
		if excluded {
			decidedElsewhere = append(decidedElsewhere, o.Name)
			continue
		}
		nOb++
		if o.Status == "error" {
			engineError("obligation %s: %s", o.Name, firstLines(o.Raw, 5))
		}
		if o.Status == "unsat" {
			nDis++
			bb := byBackend[o.Backend]
			bb[0]++
			bb[1] += o.Secs
			byBackend[o.Backend] = bb
			continue
		}
		failed = append(failed, o)
	}
	// functions whose contract did not bind or that left the subset: bounded runtime check of the
	// function-level contract (DESIGN 5.1); never counted as proved.
	var fallback []map[string]interface{}
	for _, rep := range reps {
		if rep.Status == "ok" {
			continue
		}
		spec := w.Specs.Funcs[rep.Key]
		// the obligations of this function, which were discharged on the unchanged tree, can no longer be
		// generated from the changed body: reported as a violation of the obligation "contract binds"
		reportUnbound := func() {
			name := rep.Key + "#contract.binds"
			if f := matchFindingName(kf, id, name); f != nil {
				lines = append(lines, fmt.Sprintf("KNOWN-FINDING: property=%s %s [%s]", id, f.What, name))
				return
			}
			violations++
			rf := &ReplayFile{Property: id, Obligation: name, Function: rep.Key, Class: "binding", Status: rep.Status, Outcome: "no-failing-input-found",
				Note: "the contract of this function does not bind to its body any more (" + rep.Reason + "): the obligations it generated on the unchanged tree cannot be generated, so the property is not established for this code"}
			os.MkdirAll(filepath.Join(verif, "replays"), 0o755)
			path := filepath.Join(verif, "replays", id+"-"+sanitize(strings.ReplaceAll(name, "#", "_"))+".json")
			b, _ := json.MarshalIndent(rf, "", " ")
			os.WriteFile(path, b, 0o644)
			lines = append(lines, fmt.Sprintf("VIOLATION property=%s replay=%s obligation=%s no-failing-input-found", id, path, name))
		}
		if spec == nil || !racable(spec) || w.FnByKey[rep.Key] == nil {
			reportUnbound()
			continue
		}
		rel, pkgName := pkgRelOf(rep.Key)
		alpha, n := parseDomain(spec.Domain, 4)
		src := genReplay(w, spec, pkgName, nil, alpha, n)
		failedR, out, cases := runReplay(repo, rel, src, 300)
		fb := map[string]interface{}{"function": rep.Key, "bounded": true, "bound": fmt.Sprintf("all strings over %q up to length %d", alpha, n), "cases": cases, "failed": failedR}
		fallback = append(fallback, fb)
		if failedR {
			name := rep.Key + "#rac.contract"
			if f := matchFindingName(kf, id, name); f != nil {
				lines = append(lines, fmt.Sprintf("KNOWN-FINDING: property=%s %s [%s]", id, f.What, name))
				continue
			}
			violations++
			rf := &ReplayFile{Property: id, Obligation: name, Function: rep.Key, Class: "rac", Status: rep.Status, PkgRel: rel, TestSource: src, TestOutput: tail(out, 40), Outcome: "reproduced",
				Note: "contract did not bind to the changed body (" + rep.Reason + "); the function-level requires/ensures were evaluated on the real code over the bounded domain"}
			os.MkdirAll(filepath.Join(verif, "replays"), 0o755)
			path := filepath.Join(verif, "replays", id+"-"+sanitize(strings.ReplaceAll(name, "#", "_"))+".json")
			b, _ := json.MarshalIndent(rf, "", " ")
			os.WriteFile(path, b, 0o644)
			lines = append(lines, fmt.Sprintf("VIOLATION property=%s replay=%s", id, path))
		} else {
			reportUnbound()
		}
	}
	for _, r := range ps.Required {
		if !names[r] {
			lines = append(lines, fmt.Sprintf("UNDECIDED obligation=%s reason=not-generated", r))
			undecidedFns = append(undecidedFns, map[string]string{"obligation": r, "status": "not_generated"})
		}
	}
	if nOb == 0 && len(undecidedFns) == 0 {
		engineError("no obligations generated for %s", id)
	}
	if ps.MinObligations > 0 && nOb < ps.MinObligations/2 {
		engineError("only %d obligations generated for %s (expected about %d): contracts missing?", nOb, id, ps.MinObligations)
	}
	os.MkdirAll(filepath.Join(verif, "replays"), 0o755)
	var knownHit []string
	// group failures per function: the first failing obligation of a function gets the replay effort
	for _, o := range failed {
		if f := matchFinding(kf, id, o); f != nil {
			knownHit = append(knownHit, o.Name)
			nOb-- // a listed open finding is reported as such, not as part of the proof claim
			lines = append(lines, fmt.Sprintf("KNOWN-FINDING: property=%s %s [%s]", id, f.What, o.Name))
			continue
		}
		violations++
		rf := buildReplay(w, id, o, encs[o.Func], repo, verif, ps, dir)
		path := filepath.Join(verif, "replays", id+"-"+sanitize(strings.ReplaceAll(o.Name, "#", "_"))+".json")
		b, _ := json.MarshalIndent(rf, "", " ")
		os.WriteFile(path, b, 0o644)
		line := fmt.Sprintf("VIOLATION property=%s replay=%s", id, path)
		if rf.Outcome != "reproduced" {
			line += " obligation=" + o.Name + " no-failing-input-found"
		}
		lines = append(lines, line)
	}
	// ---- bounded stand-ins ----
	var bounded []map[string]interface{}
	for _, bsd := range ps.Bounded {
		res := runBounded(w, bsd, tier, repo, verif)
		bounded = append(bounded, res)
		if res["failed"] == true {
			if f := matchFindingName(kf, id, "bounded:"+bsd.Name); f != nil {
				lines = append(lines, fmt.Sprintf("KNOWN-FINDING: property=%s %s [bounded:%s]", id, f.What, bsd.Name))
				continue
			}
			violations++
			path := filepath.Join(verif, "replays", id+"-bounded-"+sanitize(bsd.Name)+".json")
			b, _ := json.MarshalIndent(res, "", " ")
			os.WriteFile(path, b, 0o644)
			lines = append(lines, fmt.Sprintf("VIOLATION property=%s replay=%s", id, path))
		}
	}
	// ---- thorough tier: every scenario replay of the property runs on the current tree ----
	// (a scenario is the run-time evaluation of contracts on the real code over a hand-picked family of
	// inputs or schedules; on the unchanged tree all of them pass, a failure is a violation with a replay)
	var scen []map[string]interface{}
	if tier == "thorough" {
		seenF := map[string]bool{}
		var files []string
		for _, f := range ps.Scenarios {
			if !seenF[f] {
				seenF[f] = true
				files = append(files, f)
			}
		}
		sort.Strings(files)
		for _, f := range files {
			srcB, err := os.ReadFile(filepath.Join(verif, "replay", f))
			if err != nil {
				engineError("scenario %s missing", f)
			}
			src := string(srcB)
			rel := scenarioPkg(src)
			t1 := time.Now()
			failedS, out, cases := runReplay(repo, rel, src, 600)
			if strings.HasPrefix(out, "REPLAY-ERROR") {
				engineError("scenario %s did not run: %s", f, tail(out, 20))
			}
			scen = append(scen, map[string]interface{}{"scenario": f, "cases": cases, "failed": failedS, "secs": time.Since(t1).Seconds()})
			if failedS {
				name := "scenario:" + f
				// a scenario that demonstrates an open known finding fails by design
				knownScen := false
				for pat, file := range ps.Scenarios {
					if file != f {
						continue
					}
					re, err := regexp.Compile(pat)
					if err != nil {
						continue
					}
					for _, kfd := range kf.Findings {
						if kfd.Property == id && kfd.Status == "open" && re.MatchString(kfd.Obligation) {
							knownScen = true
						}
					}
				}
				if knownScen {
					lines = append(lines, fmt.Sprintf("KNOWN-FINDING: property=%s the scenario %s reproduces a listed open finding on the real code", id, f))
					continue
				}
				if fd := matchFindingName(kf, id, name); fd != nil {
					lines = append(lines, fmt.Sprintf("KNOWN-FINDING: property=%s %s [%s]", id, fd.What, name))
					continue
				}
				violations++
				rf := &ReplayFile{Property: id, Obligation: name, Class: "scenario", PkgRel: rel, TestSource: src, TestOutput: tail(out, 40), Outcome: "reproduced",
					Note: "scenario replay failed on the current tree"}
				path := filepath.Join(verif, "replays", id+"-"+sanitize(strings.ReplaceAll(name, ":", "_"))+".json")
				b, _ := json.MarshalIndent(rf, "", " ")
				os.WriteFile(path, b, 0o644)
				lines = append(lines, fmt.Sprintf("VIOLATION property=%s replay=%s obligation=%s", id, path, name))
			}
		}
	}
	// stale findings: an open finding whose obligation no longer fails
	for _, f := range kf.Findings {
		if f.Property != id || f.Status != "open" {
			continue
		}
		hit := false
		for _, n := range knownHit {
			if n == f.Obligation {
				hit = true
			}
		}
		if !hit && !strings.HasPrefix(f.Obligation, "bounded:") && !strings.HasPrefix(f.Obligation, "scenario:") {
			lines = append(lines, fmt.Sprintf("NOTE: known finding %s no longer reproduces (stale entry?)", f.Obligation))
		}
	}

	// ---- evidence ----
	var fnsEv []map[string]interface{}
	trusted := map[string]bool{}
	calleeUsed := map[string]bool{}
	for _, rep := range reps {
		n, d := 0, 0
		for _, o := range rep.Obs {
			if o.Canary {
				continue
			}
			n++
			if o.Status == "unsat" {
				d++
			}
		}
		fnsEv = append(fnsEv, map[string]interface{}{"function": rep.Key, "at": rep.File, "status": rep.Status, "reason": rep.Reason, "obligations": n, "discharged": d, "loops": rep.NLoops})
		for _, t := range rep.Trusted {
			trusted[t] = true
		}
		for _, c := range rep.Callees {
			calleeUsed[c] = true
		}
	}
	// contracts of go-res functions applied at call sites whose bodies are not verified in this run:
	// verified under another claimed property, or assumed (callbacks are client code by definition)
	verifiedHere := map[string]bool{}
	for _, rep := range reps {
		verifiedHere[rep.Key] = true
	}
	elsewhere := map[string]string{}
	if ents, err := os.ReadDir(filepath.Join(verif, "specs")); err == nil {
		for _, en := range ents {
			if !strings.HasSuffix(en.Name(), ".json") || en.Name() == "manifest_src.json" || en.Name() == id+".json" {
				continue
			}
			var other PropSpec
			if loadJSON(filepath.Join(verif, "specs", en.Name()), &other) == nil {
				for _, f := range other.Functions {
					if _, ok := elsewhere[f]; !ok {
						elsewhere[f] = other.ID
					}
				}
			}
		}
	}
	var calleeEv []map[string]string
	var calleeKeys []string
	for c := range calleeUsed {
		calleeKeys = append(calleeKeys, c)
	}
	sort.Strings(calleeKeys)
	for _, c := range calleeKeys {
		if verifiedHere[c] {
			continue
		}
		switch {
		case strings.HasPrefix(c, "callback."):
			calleeEv = append(calleeEv, map[string]string{"contract": c, "status": "assumed: client code behind a callback contract"})
		case elsewhere[c] != "":
			calleeEv = append(calleeEv, map[string]string{"contract": c, "status": "body verified under " + elsewhere[c]})
		default:
			calleeEv = append(calleeEv, map[string]string{"contract": c, "status": "ASSUMED: the body of this go-res function is not verified by any check"})
		}
	}
	var tb []string
	for t := range trusted {
		tb = append(tb, "assumed contract: "+t)
	}
	sort.Strings(tb)
	tb = append(tb, "T1 the verifier itself (SSA->SMT encoding in /verif/govc)", "T2 go/ssa x/tools v0.29.0 and the SMT solvers", "T3 machine integers mathematical, overflow side obligations under len<=2^62")
	tb = append(tb, ps.Assumptions...)
	sort.Slice(all, func(i, j int) bool { return all[i].Secs > all[j].Secs })
	var slowest, samples []map[string]interface{}
	for i, o := range all {
		if i < 5 {
			slowest = append(slowest, map[string]interface{}{"obligation": o.Name, "secs": o.Secs, "backend": o.Backend, "status": o.Status})
		}
	}
	cnt := 0
	for _, o := range all {
		if !o.Canary && cnt < 8 && (o.Class == "post" || o.Class == "inv" || cnt < 3) {
			samples = append(samples, map[string]interface{}{"obligation": o.Name, "class": o.Class, "clause": o.Src, "status": o.Status, "backend": o.Backend, "vc_bytes": len(o.SMT)})
			cnt++
		}
	}
	bbEv := map[string]interface{}{}
	for k, v := range byBackend {
		bbEv[k] = map[string]interface{}{"discharged": int(v[0]), "solver_secs": v[1]}
	}
	ev := map[string]interface{}{
		"property_id": id, "tier": tier, "seed": seed, "level": "proof",
		"coverage": map[string]interface{}{
			"obligations": nOb, "discharged": nDis,
			"checker_cmd":              fmt.Sprintf("/verif/check %s --tier %s", id, tier),
			"trusted_base":             tb,
			"functions_under_contract": fnsEv,
			"by_backend":               bbEv, "slowest": slowest, "samples": samples,
			"canaries":  map[string]int{"planted": nCanary, "shown_reachable": nCanaryReach},
			"undecided": undecidedFns, "bounded": bounded, "scenarios_run": scen, "callee_contracts_not_verified_here": calleeEv, "undecided_fallback_rac": fallback,
			"known_findings_hit": knownHit, "open_findings_not_counted_as_obligations": len(knownHit), "not_decided": ps.NotDecided, "decided_under_another_property": decidedElsewhere,
			"load_secs": tLoad, "solver_timeout_s": secs,
			"contract_files": w.Specs.Files,
		},
		"assumptions": tb,
		"wall_s":      time.Since(t0).Seconds(),
		"violations":  violations,
	}
	os.MkdirAll(filepath.Join(verif, "evidence"), 0o755)
	b, _ := json.MarshalIndent(ev, "", " ")
	os.WriteFile(filepath.Join(verif, "evidence", id+".json"), b, 0o644)
	for _, l := range lines {
		fmt.Println(l)
	}
	fmt.Printf("%s tier=%s functions=%d obligations=%d discharged=%d violations=%d wall=%.1fs\n", id, tier, len(reps), nOb, nDis, violations, time.Since(t0).Seconds())
	if violations > 0 {
		os.RemoveAll(dir) // os.Exit skips the deferred clean-up
		os.Exit(1)
	}
}

func matchFinding(kf KnownFindings, id string, o *Obligation) *Finding {
	return matchFindingName(kf, id, o.Name)
}

func matchFindingName(kf KnownFindings, id, name string) *Finding {
	for i, f := range kf.Findings {
		if f.Property == id && f.Status == "open" && f.Obligation == name {
			return &kf.Findings[i]
		}
	}
	return nil
}

func verifyFuncE(w *World, key string) (*FuncReport, *Enc) {
	var enc *Enc
	rep := verifyFuncHook(w, key, func(e *Enc) { enc = e })
	return rep, enc
}

// buildReplay tries to attach a failing input on the real code to a failed obligation.
func buildReplay(w *World, id string, o *Obligation, e *Enc, repo, verif string, ps PropSpec, dir string) *ReplayFile {
	rf := &ReplayFile{Property: id, Obligation: o.Name, Function: o.Func, Where: o.Where, Class: o.Class, Clause: o.Src,
		Status: o.Status, Backend: o.Backend, SolverOut: firstLines(o.Raw, 40), Model: o.Model, Outcome: "no-failing-input-found"}
	// keep the query
	smt := filepath.Join(verif, "replays", id+"-"+sanitize(strings.ReplaceAll(o.Name, "#", "_"))+".smt2")
	os.WriteFile(smt, []byte(o.SMT), 0o644)
	rf.SMTFile = smt
	// scenario replays (hand-written drivers keyed by obligation)
	for pat, file := range ps.Scenarios {
		if ok, _ := regexp.MatchString(pat, o.Name); ok {
			src, err := os.ReadFile(filepath.Join(verif, "replay", file))
			if err == nil {
				rel := scenarioPkg(string(src))
				failed, out, _ := runReplay(repo, rel, string(src), 60)
				rf.PkgRel, rf.TestSource, rf.TestOutput = rel, string(src), tail(out, 60)
				if failed {
					rf.Outcome = "reproduced"
					rf.Note = "scenario replay " + file
					return rf
				}
			}
		}
	}
	if e == nil || e.spec == nil || !racable(e.spec) {
		rf.Note = "contract not executable on plain inputs; no runtime-assertion replay available"
		return rf
	}
	rel, pkgName := pkgRelOf(o.Func)
	rf.PkgRel = rel
	// 1. the solver's own model
	if o.Status == "sat" {
		if in, ok := modelInputs(e, e.spec, o.Model); ok {
			src := genReplay(w, e.spec, pkgName, []racInput{in}, "", 0)
			failed, out, _ := runReplay(repo, rel, src, 60)
			if failed {
				rf.Inputs, rf.TestSource, rf.TestOutput, rf.Outcome = in, src, tail(out, 40), "reproduced"
				rf.Note = "solver model replayed on the real code"
				return rf
			}
			rf.Note = "solver model is a mid-loop state that does not fail end to end; "
		}
	}
	// 2. witness search over the replay domain
	alpha, n := parseDomain(e.spec.Domain, 5)
	src := genReplay(w, e.spec, pkgName, nil, alpha, n)
	failed, out, cases := runReplay(repo, rel, src, 120)
	rf.TestSource, rf.TestOutput = src, tail(out, 40)
	if failed {
		rf.Outcome = "reproduced"
		rf.Note += fmt.Sprintf("witness search over strings in %q up to length %d found a failing input", alpha, n)
	} else {
		rf.Note += fmt.Sprintf("witness search over %d inputs found nothing", cases)
	}
	return rf
}

func scenarioPkg(src string) string {
	// first line: // pkg: <rel>
	for _, l := range strings.Split(src, "\n") {
		if strings.HasPrefix(l, "// pkg:") {
			return strings.TrimSpace(strings.TrimPrefix(l, "// pkg:"))
		}
	}
	return "."
}

func tail(s string, n int) string {
	ls := strings.Split(strings.TrimRight(s, "\n"), "\n")
	if len(ls) > n {
		ls = ls[len(ls)-n:]
	}
	return strings.Join(ls, "\n")
}

func runBounded(w *World, b BoundedSpec, tier, repo, verif string) map[string]interface{} {
	res := map[string]interface{}{"name": b.Name, "bounded": true, "bound": b.Bound, "function": b.Function}
	n := b.Quick
	if tier == "thorough" && b.Thorough > 0 {
		n = b.Thorough
	}
	var src string
	rel, pkgName := b.Pkg, b.PkgName
	if b.TestFile != "" {
		s, err := os.ReadFile(filepath.Join(verif, "replay", b.TestFile))
		if err != nil {
			engineError("bounded harness %s missing", b.TestFile)
		}
		src = strings.ReplaceAll(string(s), "/*BOUND*/0", strconv.Itoa(n))
		if rel == "" {
			rel = scenarioPkg(src)
		}
	} else {
		spec := w.Specs.Funcs[b.Function]
		if spec == nil || !racable(spec) {
			engineError("bounded check %s: contract %s not executable", b.Name, b.Function)
		}
		if rel == "" {
			rel, pkgName = pkgRelOf(b.Function)
		}
		src = genReplay(w, spec, pkgName, nil, b.Alpha, n)
	}
	t0 := time.Now()
	failed, out, cases := runReplay(repo, rel, src, 600)
	if strings.HasPrefix(out, "REPLAY-ERROR") {
		engineError("bounded check %s did not run: %s", b.Name, tail(out, 20))
	}
	res["cases"] = cases
	res["len_bound"] = n
	res["failed"] = failed
	res["secs"] = time.Since(t0).Seconds()
	if failed {
		res["output"] = tail(out, 30)
		res["test_source"] = src
		res["pkg_rel"] = rel
	}
	return res
}

func replayMain(id, path, repo string) {
	var raw map[string]interface{}
	if err := loadJSON(path, &raw); err != nil {
		engineError("cannot read replay file: %v", err)
	}
	src, _ := raw["test_source"].(string)
	rel, _ := raw["pkg_rel"].(string)
	if src == "" {
		fmt.Printf("replay file carries no executable test (outcome=%v); obligation=%v\nsolver output:\n%v\n", raw["outcome"], raw["obligation"], raw["solver_output"])
		fmt.Printf("VIOLATION property=%s replay=%s no-failing-input-found\n", id, path)
		os.Exit(1)
	}
	failed, out, _ := runReplay(repo, rel, src, 120)
	fmt.Println(tail(out, 40))
	if failed {
		fmt.Printf("VIOLATION property=%s replay=%s\n", id, path)
		os.Exit(1)
	}
	fmt.Println("replay passes on the current tree")
}

// parseDomain reads `replay_domain <maxlen> "<alphabet>"`.
func parseDomain(d string, defLen int) (string, int) {
	alpha, n := "a.$*>", defLen
	d = strings.TrimSpace(d)
	if d == "" {
		return alpha, n
	}
	f := strings.SplitN(d, " ", 2)
	if k, err := strconv.Atoi(f[0]); err == nil {
		n = k
	}
	if len(f) == 2 {
		if s, err := strconv.Unquote(strings.TrimSpace(f[1])); err == nil {
			alpha = s
		}
	}
	return alpha, n
}

// inDeadRegion: some `dead` obligation of the same function was proved unreachable in a block that
// dominates (or is) the canary's block.
func inDeadRegion(c *Obligation, all []*Obligation) bool {
	if c.Blk == nil {
		return false
	}
	for _, d := range all {
		if d.Class == "dead" && d.Func == c.Func && d.Status == "unsat" && d.Blk != nil && (d.Blk == c.Blk || d.Blk.Dominates(c.Blk)) {
			return true
		}
	}
	return false
}
