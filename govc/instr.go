package main

// SSA instruction -> guarded commands (DESIGN.md appendix B).

import (
	"fmt"
	"go/constant"
	"go/token"
	"go/types"
	"strings"

	"golang.org/x/tools/go/ssa"
)

type blockState struct {
	e    *Enc
	b    *ssa.BasicBlock
	g    string
	st   *State
	dead bool
}

func (bs *blockState) posOf(ins ssa.Instruction) token.Pos {
	if p := ins.Pos(); p.IsValid() {
		return p
	}
	// fall back to the nearest positioned instruction in the block
	for _, x := range bs.b.Instrs {
		if p := x.Pos(); p.IsValid() {
			return p
		}
	}
	return bs.e.fn.Pos()
}

func (bs *blockState) where(ins ssa.Instruction) string {
	p := bs.e.W.Fset.Position(bs.posOf(ins))
	return fmt.Sprintf("%s:%d", shortFile(p.Filename), p.Line)
}

func shortFile(f string) string {
	f = strings.TrimPrefix(f, "/repo/")
	return f
}

func (bs *blockState) assumeG(t string) {
	if t == "true" {
		return
	}
	bs.e.assume(bs.g, t)
	ng := bs.e.fresh("g", SBool)
	bs.e.def(eq(ng, and(bs.g, t)))
	bs.g = ng
}

func (bs *blockState) assertG(name, class, term, src string, ins ssa.Instruction) {
	if (class == "nil" || class == "bounds" || class == "div") && bs.e.spec != nil && bs.e.spec.MayPanic && term != "true" && !bs.e.inRaise {
		// the contract allows a panic: the failing case is an exceptional exit that must establish ensures_on_panic
		e := bs.e
		xg := bs.namedGuard(and(bs.g, not(term)))
		xs := &blockState{e: e, b: bs.b, g: xg, st: bs.st.clone()}
		pv := e.freshVal("rtpanic", types.NewInterfaceType(nil, nil))
		e.assume(xg, and(not(eq(pv.C[0], "0")), not(eq(pv.C[0], e.tagByName("*res.Error")))))
		xs.raise(pv, "run-time panic: "+src, ins)
		ng := e.fresh("g", SBool)
		e.def(eq(ng, and(bs.g, term)))
		bs.g = ng
		return
	}
	bs.e.assert(bs.g, name, class, term, src+" @"+bs.where(ins), bs.posOf(ins))
	// later code may assume the check passed (execution would have panicked otherwise)
	if term != "true" {
		ng := bs.e.fresh("g", SBool)
		bs.e.def(eq(ng, and(bs.g, term)))
		bs.g = ng
	}
}

func (bs *blockState) setReg(v ssa.Value, val Val) {
	// name the register so that models are readable
	e := bs.e
	out := Val{T: val.T}
	cn := compNames(val.T)
	for i, c := range val.C {
		if isAtom(c) {
			out.C = append(out.C, c)
			continue
		}
		suffix := ""
		if len(val.C) > 1 {
			suffix = "." + cn[i]
		}
		n := e.fresh(v.Name()+suffix, flatten(val.T)[i])
		e.def(eq(n, c))
		if e.alias == nil {
			e.alias = map[string]string{}
		}
		e.alias[n] = c
		out.C = append(out.C, n)
	}
	e.regs[v] = out
}

func isAtom(t string) bool {
	return !strings.ContainsAny(t, " (") || (strings.HasPrefix(t, "(- ") && !strings.ContainsAny(t[3:len(t)-1], " ("))
}

func (bs *blockState) val(v ssa.Value) Val {
	e := bs.e
	switch x := v.(type) {
	case *ssa.Const:
		return bs.constVal(x)
	case *ssa.Global:
		unsupp("global %s used as value", x.Name())
	case *ssa.Function:
		return Val{x.Type(), []string{e.funcRef(x)}}
	case *ssa.Builtin:
		unsupp("builtin %s as value", x.Name())
	}
	if r, ok := e.regs[v]; ok {
		return r
	}
	if lv, ok := e.addrs[v]; ok && lv.kind == "ptr" {
		return Val{v.Type(), []string{lv.obj}}
	}
	if lv, ok := e.addrs[v]; ok && lv.kind == "field" {
		// the address of a field escapes as a value: an interior pointer
		r := subRef(lv.obj, lv.fidx)
		e.fieldPtrs[r] = lv
		return Val{v.Type(), []string{r}}
	}
	unsupp("value %s (%T) has no encoding", v.Name(), v)
	return Val{}
}

func (e *Enc) funcRef(f *ssa.Function) string {
	name := "fn." + sanitize(f.String())
	if _, ok := e.sorts["decl:"+name]; !ok {
		e.sorts["decl:"+name] = SInt
		e.decl(name, SInt)
		e.def(app("<", name, "0")) // function refs are negative: never equal to nil or an allocated object
	}
	return name
}

func (bs *blockState) constVal(c *ssa.Const) Val {
	t := c.Type()
	if c.Value == nil {
		return zeroVal(t)
	}
	switch c.Value.Kind() {
	case constant.Bool:
		if constant.BoolVal(c.Value) {
			return Val{t, []string{"true"}}
		}
		return Val{t, []string{"false"}}
	case constant.Int:
		if isInteger(t) {
			n, ok := constant.Int64Val(c.Value)
			if !ok {
				u, _ := constant.Uint64Val(c.Value)
				return Val{t, []string{fmt.Sprintf("%d", u)}}
			}
			return Val{t, []string{intLit(n)}}
		}
		// float-typed constant with integral value: opaque
		return Val{t, []string{bs.e.fresh("fconst", SInt)}}
	case constant.String:
		s := constant.StringVal(c.Value)
		v := strLit(s)
		v.T = t
		return v
	case constant.Float:
		return Val{t, []string{bs.e.fresh("fconst", SInt)}}
	}
	unsupp("constant %s", c)
	return Val{}
}

func (bs *blockState) instr(ins ssa.Instruction) {
	e := bs.e
	switch x := ins.(type) {
	case *ssa.DebugRef:
		return
	case *ssa.Alloc:
		bs.alloc(x)
	case *ssa.Store:
		bs.store(x)
	case *ssa.UnOp:
		bs.unop(x)
	case *ssa.BinOp:
		bs.binop(x)
	case *ssa.Call:
		bs.call(x)
	case *ssa.Lookup:
		bs.lookup(x)
	case *ssa.Index:
		if at, ok := x.X.Type().Underlying().(*types.Array); ok {
			b := bs.val(x.X)
			ix := bs.val(x.Index).C[0]
			bs.assertG(fmt.Sprintf("index.%d", e.ordinal("index")), "bounds", and(app("<=", "0", ix), app("<", ix, fmt.Sprint(at.Len()))), "array index in range", x)
			out := Val{T: at.Elem()}
			for _, comp := range b.C {
				out.C = append(out.C, app("select", comp, ix))
			}
			bs.setReg(x, out)
			return
		}
		if !isString(x.X.Type()) {
			unsupp("Index on %s", x.X.Type())
		}
		bs.strIndex(x, x.X, x.Index)
	case *ssa.IndexAddr:
		bs.indexAddr(x)
	case *ssa.FieldAddr:
		bs.fieldAddr(x)
	case *ssa.Field:
		b := bs.val(x.X)
		st := x.X.Type().Underlying().(*types.Struct)
		lo, hi := fieldRange(st, x.Field)
		e.regs[x] = Val{st.Field(x.Field).Type(), b.C[lo:hi]}
	case *ssa.Slice:
		bs.slice(x)
	case *ssa.ChangeType:
		v := bs.val(x.X)
		e.regs[x] = Val{x.Type(), v.C}
	case *ssa.Convert:
		bs.convert(x)
	case *ssa.Phi:
		bs.phi(x)
	case *ssa.Range:
		bs.rangeInstr(x)
	case *ssa.Next:
		bs.next(x)
	case *ssa.Extract:
		tv := bs.val(x.Tuple)
		tup := x.Tuple.Type().(*types.Tuple)
		lo := 0
		for i := 0; i < x.Index; i++ {
			lo += len(flatten(tup.At(i).Type()))
		}
		n := len(flatten(tup.At(x.Index).Type()))
		e.regs[x] = Val{tup.At(x.Index).Type(), tv.C[lo : lo+n]}
	case *ssa.If:
		c := bs.val(x.Cond).C[0]
		e.addEdge(bs.b, bs.b.Succs[0], bs.namedGuard(and(bs.g, c)), bs.st)
		e.addEdge(bs.b, bs.b.Succs[1], bs.namedGuard(and(bs.g, not(c))), bs.st)
	case *ssa.Jump:
		e.addEdge(bs.b, bs.b.Succs[0], bs.g, bs.st)
	case *ssa.Return:
		var rets []Val
		for _, r := range x.Results {
			rets = append(rets, bs.val(r))
		}
		e.exits = append(e.exits, edge{guard: bs.g, st: bs.st.clone(), rets: rets, from: bs.b})
	case *ssa.RunDefers:
		bs.runDefers(x)
	case *ssa.Panic:
		bs.panicInstr(x)
	case *ssa.MakeInterface:
		bs.makeInterface(x)
	case *ssa.TypeAssert:
		bs.typeAssert(x)
	case *ssa.MakeSlice:
		bs.makeSlice(x)
	case *ssa.MakeMap:
		bs.makeMap(x)
	case *ssa.MapUpdate:
		bs.mapUpdate(x)
	case *ssa.MakeClosure:
		bs.makeClosure(x)
	case *ssa.Defer:
		bs.deferInstr(x)
	case *ssa.ChangeInterface:
		v := bs.val(x.X)
		e.regs[x] = Val{x.Type(), v.C}
	case *ssa.Go:
		bs.goInstr(x)
	case *ssa.MakeChan:
		ref := e.allocRef(bs.st, bs.g, "chan")
		e.regs[x] = Val{x.Type(), []string{ref}}
		// the buffer size of the new channel (cap(ch) in contracts)
		e.assume(bs.g, eq(app("chancap", ref), bs.val(x.Size).C[0]))
	case *ssa.Send:
		bs.chanOp("send", []Val{bs.val(x.Chan), bs.val(x.X)}, x, nil)
	case *ssa.Select:
		bs.selectInstr(x)
	default:
		unsupp("instruction %T (%s) not in subset", ins, ins)
	}
}

func (bs *blockState) namedGuard(t string) string {
	if isAtom(t) {
		return t
	}
	n := bs.e.fresh("e", SBool)
	bs.e.def(eq(n, t))
	return n
}

func (bs *blockState) alloc(x *ssa.Alloc) {
	e := bs.e
	t := x.Type().Underlying().(*types.Pointer).Elem()
	if !x.Heap {
		e.cellT[x] = t
		if x.Comment != "" {
			found := false
			for _, a := range e.cellName[x.Comment] {
				if a == x {
					found = true
				}
			}
			if !found {
				e.cellName[x.Comment] = append(e.cellName[x.Comment], x)
			}
		}
		z := zeroVal(t)
		for j, s := range flatten(t) {
			e.sorts[cellKey(x, j)] = s
			bs.st.m[cellKey(x, j)] = z.C[j]
		}
		e.addrs[x] = lvalue{kind: "cell", alloc: x, lo: 0, hi: len(z.C), typ: t}
		return
	}
	// heap allocation: fresh reference with zeroed contents
	r := e.allocRef(bs.st, bs.g, x.Name())
	e.regs[x] = Val{x.Type(), []string{r}}
	if at, isArr := t.Underlying().(*types.Array); isArr {
		if isReadOnlyLiteral(x) {
			e.roArrays = append(e.roArrays, roArray{x, at.Elem()})
		}
		return // backing array of a variadic call or literal: elements are written before use
	}
	e.storePtr(bs.st, t, r, zeroVal(t))
	if isPrivateCell(x) {
		e.privateCells = append(e.privateCells, x)
	}
	if x.Comment != "" {
		found := false
		for _, a := range e.cellName[x.Comment] {
			if a == x {
				found = true
			}
		}
		if !found {
			e.cellName[x.Comment] = append(e.cellName[x.Comment], x)
		}
		e.heapLocals(x)
	}
}

func (e *Enc) heapLocals(x *ssa.Alloc) {
	// recorded so that contracts can name escaping locals: handled in lookupLocal via addrs
	e.addrs[x] = lvalue{kind: "ptr", obj: e.regs[x].C[0], typ: x.Type().Underlying().(*types.Pointer).Elem()}
}

// lval resolves an address-valued SSA value.
func (bs *blockState) lval(v ssa.Value) lvalue {
	e := bs.e
	if lv, ok := e.addrs[v]; ok {
		return lv
	}
	switch x := v.(type) {
	case *ssa.Global:
		return lvalue{kind: "global", glob: x, typ: x.Type().Underlying().(*types.Pointer).Elem()}
	}
	// a pointer value from elsewhere: generic pointer cell
	pv := bs.val(v)
	pt, ok := v.Type().Underlying().(*types.Pointer)
	if !ok {
		unsupp("address %s of type %s", v.Name(), v.Type())
	}
	return lvalue{kind: "ptr", obj: pv.C[0], typ: pt.Elem()}
}

func (bs *blockState) load(lv lvalue, ins ssa.Instruction) Val {
	v := bs.load0(lv, ins)
	if lv.kind != "cell" {
		// every stored Go value is within the range of its type
		bs.e.assume(bs.g, bs.e.typeFacts(v))
		bs.e.assume(bs.g, bs.e.allocatedFacts(bs.st, v))
		bs.e.assume(bs.g, bs.e.inputBound(v))
	}
	return v
}

func (bs *blockState) load0(lv lvalue, ins ssa.Instruction) Val {
	e := bs.e
	switch lv.kind {
	case "cell":
		full := e.cellGet(bs.st, lv.alloc)
		return Val{lv.typ, full.C[lv.lo:lv.hi]}
	case "cellidx":
		full := e.cellGet(bs.st, lv.alloc)
		out := Val{T: lv.typ}
		for _, comp := range full.C[lv.lo:lv.hi] {
			out.C = append(out.C, app("select", comp, lv.idx))
		}
		return out
	case "field":
		bs.assertG(fmt.Sprintf("nil.%d", e.ordinal("nil")), "nil", not(eq(lv.obj, "0")), "nil dereference", ins)
		bs.monAccess([]string{fieldKey(lv.stT, lv.fidx, 0)}, typeKey(lv.stT)+"."+lv.stT.Underlying().(*types.Struct).Field(lv.fidx).Name(), ins)
		return e.loadField(bs.st, lv.stT, lv.fidx, lv.obj)
	case "elem":
		return e.elemAt(bs.st, lv.elemT, lv.obj, lv.idx)
	case "elemfield":
		full := e.elemAt(bs.st, lv.elemT, lv.obj, lv.idx)
		return Val{lv.typ, full.C[lv.lo:lv.hi]}
	case "ptr":
		bs.assertG(fmt.Sprintf("nil.%d", e.ordinal("nil")), "nil", not(eq(lv.obj, "0")), "nil dereference", ins)
		return e.loadPtr(bs.st, lv.typ, lv.obj)
	case "global":
		return e.loadGlobal(bs.st, lv.glob)
	}
	panic("load " + lv.kind)
}

func globalKey(g *ssa.Global, j int) string {
	return fmt.Sprintf("g:%s.%s:%d", g.Pkg.Pkg.Name(), g.Name(), j)
}

func (e *Enc) loadGlobal(st *State, g *ssa.Global) Val {
	t := g.Type().Underlying().(*types.Pointer).Elem()
	v := Val{T: t}
	if !e.W.MutableGlobals[g] {
		// initialised once, never assigned: a constant; pointers to composite literals are non-nil
		for j, so := range flatten(t) {
			name := "GC." + g.Pkg.Pkg.Name() + "." + g.Name() + fmt.Sprintf(".%d", j)
			if _, ok := e.sorts["decl:"+name]; !ok {
				e.sorts["decl:"+name] = so
				e.decl(name, so)
				if _, isPtr := t.Underlying().(*types.Pointer); isPtr && globalInitNonNil(g) {
					e.def(app("<", "0", name))
				}
				if _, isI := t.Underlying().(*types.Interface); isI && j == 0 && globalInitErrorsNew(g) {
					e.def(and(not(eq(name, "0")), not(eq(name, e.tagByName("*res.Error")))))
				}
			}
			v.C = append(v.C, name)
		}
		return v
	}
	for j, so := range flatten(t) {
		v.C = append(v.C, e.heapKey(st, globalKey(g, j), so))
	}
	return v
}

func (bs *blockState) storeTo(lv lvalue, v Val, ins ssa.Instruction) {
	e := bs.e
	switch lv.kind {
	case "cell":
		e.cellSet(bs.st, lv.alloc, lv.lo, v)
	case "cellidx":
		full := e.cellGet(bs.st, lv.alloc)
		nv := Val{T: full.T}
		for j := lv.lo; j < lv.hi; j++ {
			nv.C = append(nv.C, app("store", full.C[j], lv.idx, v.C[j-lv.lo]))
		}
		e.cellSet(bs.st, lv.alloc, lv.lo, nv)
	case "field":
		bs.assertG(fmt.Sprintf("nil.%d", e.ordinal("nil")), "nil", not(eq(lv.obj, "0")), "nil dereference", ins)
		bs.monAccess([]string{fieldKey(lv.stT, lv.fidx, 0)}, typeKey(lv.stT)+"."+lv.stT.Underlying().(*types.Struct).Field(lv.fidx).Name(), ins)
		e.storeField(bs.st, lv.stT, lv.fidx, lv.obj, v)
	case "elem":
		e.elemStore(bs.st, lv.elemT, lv.obj, lv.idx, v)
	case "elemfield":
		full := e.elemAt(bs.st, lv.elemT, lv.obj, lv.idx)
		nv := Val{T: lv.elemT, C: append([]string{}, full.C...)}
		copy(nv.C[lv.lo:lv.hi], v.C)
		e.elemStore(bs.st, lv.elemT, lv.obj, lv.idx, nv)
	case "ptr":
		bs.assertG(fmt.Sprintf("nil.%d", e.ordinal("nil")), "nil", not(eq(lv.obj, "0")), "nil dereference", ins)
		e.storePtr(bs.st, lv.typ, lv.obj, v)
	case "global":
		for j := range v.C {
			k := globalKey(lv.glob, j)
			e.heapKey(bs.st, k, flatten(lv.typ)[j])
			bs.st.m[k] = v.C[j]
		}
	default:
		panic("store " + lv.kind)
	}
}

func (bs *blockState) store(x *ssa.Store) {
	lv := bs.lval(x.Addr)
	v := bs.val(x.Val)
	name, ord := bs.e.storeOrd(x)
	if name != "" && bs.e.spec != nil && len(bs.e.spec.Ghost) > 0 {
		bs.ghostAt(fmt.Sprintf("store %s#%d before", name, ord), x, map[string]Val{"value": v})
	}
	bs.storeTo(lv, v, x)
	if name != "" && bs.e.spec != nil && len(bs.e.spec.Ghost) > 0 {
		bs.ghostAt(fmt.Sprintf("store %s#%d after", name, ord), x, map[string]Val{"value": v})
	}
}

// storeOrd names an assignment for ghost anchors `store <name>#k before|after`: the local variable or
// field assigned, and its ordinal among the assignments to that name in block order.
func (e *Enc) storeOrd(x *ssa.Store) (string, int) {
	nameOf := func(s *ssa.Store) string {
		switch a := s.Addr.(type) {
		case *ssa.Alloc:
			return a.Comment
		case *ssa.FieldAddr:
			return a.X.Type().Underlying().(*types.Pointer).Elem().Underlying().(*types.Struct).Field(a.Field).Name()
		case *ssa.FreeVar:
			return a.Name()
		}
		return ""
	}
	name := nameOf(x)
	if name == "" {
		return "", 0
	}
	n := 0
	for _, b := range e.fn.Blocks {
		for _, ins := range b.Instrs {
			if s, ok := ins.(*ssa.Store); ok && nameOf(s) == name {
				n++
				if s == x {
					return name, n
				}
			}
		}
	}
	return name, 0
}

func (bs *blockState) unop(x *ssa.UnOp) {
	e := bs.e
	switch x.Op {
	case token.MUL:
		lv := bs.lval(x.X)
		v := bs.load(lv, x)
		v.T = x.Type()
		e.regs[x] = v
	case token.NOT:
		bs.setReg(x, Val{x.Type(), []string{not(bs.val(x.X).C[0])}})
	case token.SUB:
		v := bs.val(x.X)
		r := "(- " + v.C[0] + ")"
		bs.overflow(x, x.Type(), r)
		bs.setReg(x, Val{x.Type(), []string{r}})
	case token.ARROW:
		bs.recv(x)
	default:
		unsupp("unary %s", x.Op)
	}
}

func (bs *blockState) overflow(ins ssa.Instruction, t types.Type, r string) {
	if bs.e.W.Opts.NoOverflow {
		return
	}
	if lo, hi, ok := intRange(t); ok {
		bs.assertG(fmt.Sprintf("ovf.%d", bs.e.ordinal("ovf")), "ovf", and(app("<=", lo, r), app("<=", r, hi)), "integer overflow", ins)
	}
}

func (bs *blockState) binop(x *ssa.BinOp) {
	a, b := bs.val(x.X), bs.val(x.Y)
	t := x.X.Type()
	var r string
	switch x.Op {
	case token.ADD:
		if isString(t) {
			bs.setReg(x, bs.concat(a, b, x))
			return
		}
		r = add(a.C[0], b.C[0])
		bs.overflow(x, x.Type(), r)
	case token.SUB:
		r = sub(a.C[0], b.C[0])
		bs.overflow(x, x.Type(), r)
	case token.MUL:
		r = app("*", a.C[0], b.C[0])
		bs.overflow(x, x.Type(), r)
	case token.QUO:
		bs.assertG(fmt.Sprintf("div.%d", bs.e.ordinal("div")), "div", not(eq(b.C[0], "0")), "division by zero", x)
		r = goDiv(a.C[0], b.C[0])
	case token.REM:
		bs.assertG(fmt.Sprintf("div.%d", bs.e.ordinal("div")), "div", not(eq(b.C[0], "0")), "division by zero", x)
		r = goMod(a.C[0], b.C[0])
	case token.EQL, token.NEQ:
		r = bs.equal(a, b, t, x)
		if x.Op == token.NEQ {
			r = not(r)
		}
	case token.LSS, token.LEQ, token.GTR, token.GEQ:
		if !isInteger(t) {
			unsupp("ordering on %s", t)
		}
		op := map[token.Token]string{token.LSS: "<", token.LEQ: "<=", token.GTR: ">", token.GEQ: ">="}[x.Op]
		r = app(op, a.C[0], b.C[0])
	case token.OR, token.AND, token.XOR, token.SHL, token.SHR, token.AND_NOT:
		r = bs.bitop(x, a.C[0], b.C[0])
	default:
		unsupp("binary %s", x.Op)
	}
	bs.setReg(x, Val{x.Type(), []string{r}})
}

// bitop handles the few bit operations on bytes with a constant operand.
func (bs *blockState) bitop(x *ssa.BinOp, a, b string) string {
	// general case: uninterpreted result within the type's range
	e := bs.e
	r := e.fresh("bit."+x.Name(), SInt)
	if lo, hi, ok := intRange(x.Type()); ok {
		e.def(and(app("<=", lo, r), app("<=", r, hi)))
	}
	if c, ok := x.Y.(*ssa.Const); ok && c.Value != nil && c.Value.Kind() == constant.Int {
		n, _ := constant.Int64Val(c.Value)
		if x.Op == token.OR && n > 0 && n&(n-1) == 0 {
			// a | 2^k  ==  a + 2^k if bit k is clear, else a
			bit := fmt.Sprintf("(= (mod (div %s %d) 2) 1)", a, n)
			e.def(eq(r, ite(bit, a, add(a, fmt.Sprint(n)))))
		}
		if x.Op == token.AND && n >= 0 {
			e.def(and(app("<=", "0", r), app("<=", r, fmt.Sprint(n))))
			if n == 0xff || n == 0x7f {
				e.def(eq(r, fmt.Sprintf("(mod %s %d)", a, n+1)))
			}
		}
	}
	return r
}

func (bs *blockState) equal(a, b Val, t types.Type, ins ssa.Instruction) string {
	switch u := t.Underlying().(type) {
	case *types.Basic:
		if u.Info()&types.IsString != 0 {
			return bs.strEqual(a, b, ins)
		}
		return eq(a.C[0], b.C[0])
	case *types.Pointer, *types.Map, *types.Chan, *types.Signature:
		return eq(a.C[0], b.C[0])
	case *types.Slice:
		// only comparison with nil is legal
		if isNilVal(ins, 1) {
			return eq(a.C[0], "0")
		}
		return eq(b.C[0], "0")
	case *types.Interface:
		// comparison with nil is a test of the type tag; otherwise tag and payload
		if isNilVal(ins, 1) {
			return eq(a.C[0], "0")
		}
		if isNilVal(ins, 0) {
			return eq(b.C[0], "0")
		}
		return and(eq(a.C[0], b.C[0]), eq(a.C[1], b.C[1]))
	case *types.Struct:
		return valEq(a, b)
	}
	unsupp("equality on %s", t)
	return ""
}

func isNilVal(ins ssa.Instruction, operand int) bool {
	ops := ins.Operands(nil)
	if operand < len(ops) {
		if c, ok := (*ops[operand]).(*ssa.Const); ok {
			return c.Value == nil
		}
	}
	return false
}

func (bs *blockState) strEqual(a, b Val, ins ssa.Instruction) string {
	// literal on either side: quantifier free
	ops := ins.Operands(nil)
	for i, o := range ops {
		if i > 1 {
			break
		}
		if c, ok := (*o).(*ssa.Const); ok && c.Value != nil && c.Value.Kind() == constant.String {
			other := a
			if i == 0 {
				other = b
			}
			return strEqLit(other, constant.StringVal(c.Value))
		}
	}
	return strEq(a, b)
}

func (bs *blockState) concat(a, b Val, ins ssa.Instruction) Val {
	e := bs.e
	n := add(a.C[2], b.C[2])
	// the runtime refuses over-long strings; memory exhaustion is outside the model (DESIGN 2.1)
	bs.assumeG(app("<=", n, "maxcap"))
	// one definition by absolute index of the new array, directed new -> old (shared with contract expressions)
	v := e.concatSpec(a, b)
	return Val{a.T, v.C}
}

func (bs *blockState) lookup(x *ssa.Lookup) {
	if isString(x.X.Type()) {
		bs.strIndex(x, x.X, x.Index)
		return
	}
	bs.mapLookup(x)
}

func (bs *blockState) strIndex(x ssa.Value, sx, ix ssa.Value) {
	e := bs.e
	b := bs.val(sx)
	i := bs.val(ix).C[0]
	bs.assertG(fmt.Sprintf("index.%d", e.ordinal("index")), "bounds", and(app("<=", "0", i), app("<", i, b.C[2])), "string index in range", x.(ssa.Instruction))
	r := app("select", b.C[0], add(b.C[1], i))
	n := e.fresh(x.Name(), SInt)
	e.def(eq(n, r))
	e.def(and(app("<=", "0", n), app("<=", n, "255")))
	e.regs[x] = Val{x.Type(), []string{n}}
}

func (bs *blockState) slice(x *ssa.Slice) {
	e := bs.e
	t := x.X.Type()
	if isString(t) {
		b := bs.val(x.X)
		lo, hi := "0", b.C[2]
		if x.Low != nil {
			lo = bs.val(x.Low).C[0]
		}
		if x.High != nil {
			hi = bs.val(x.High).C[0]
		}
		bs.assertG(fmt.Sprintf("slice.%d", e.ordinal("slice")), "bounds", and(app("<=", "0", lo), app("<=", lo, hi), app("<=", hi, b.C[2])), "string slice bounds", x)
		bs.setReg(x, Val{x.Type(), []string{b.C[0], add(b.C[1], lo), sub(hi, lo)}})
		return
	}
	if _, ok := t.Underlying().(*types.Slice); ok {
		b := bs.val(x.X)
		lo, hi, mx := "0", b.C[2], b.C[3]
		if x.Low != nil {
			lo = bs.val(x.Low).C[0]
		}
		if x.High != nil {
			hi = bs.val(x.High).C[0]
		}
		if x.Max != nil {
			unsupp("3-index slice")
		}
		bs.assertG(fmt.Sprintf("slice.%d", e.ordinal("slice")), "bounds", and(app("<=", "0", lo), app("<=", lo, hi), app("<=", hi, mx)), "slice bounds", x)
		bs.setReg(x, Val{x.Type(), []string{b.C[0], add(b.C[1], lo), sub(hi, lo), sub(mx, lo)}})
		return
	}
	if at, ok := isArrayPtr(t); ok {
		b := bs.val(x.X)
		n := fmt.Sprint(at.Len())
		lo, hi := "0", n
		if x.Low != nil {
			lo = bs.val(x.Low).C[0]
		}
		if x.High != nil {
			hi = bs.val(x.High).C[0]
		}
		bs.assertG(fmt.Sprintf("slice.%d", e.ordinal("slice")), "bounds", and(app("<=", "0", lo), app("<=", lo, hi), app("<=", hi, n)), "array slice bounds", x)
		bs.setReg(x, Val{x.Type(), []string{b.C[0], lo, sub(hi, lo), sub(n, lo)}})
		return
	}
	unsupp("slice of %s", t)
}

func (bs *blockState) convert(x *ssa.Convert) {
	e := bs.e
	from, to := x.X.Type(), x.Type()
	v := bs.val(x.X)
	switch {
	case isInteger(from) && isInteger(to):
		lo, hi, _ := intRange(to)
		flo, fhi, _ := intRange(from)
		if flo == lo && fhi == hi || withinRange(from, to) {
			e.regs[x] = Val{to, v.C}
			return
		}
		// narrowing: wraps; model precisely for unsigned targets
		if lo == "0" {
			m := map[string]string{"255": "256", "65535": "65536", "4294967295": "4294967296", "18446744073709551615": "18446744073709551616"}[hi]
			bs.setReg(x, Val{to, []string{fmt.Sprintf("(mod %s %s)", v.C[0], m)}})
			return
		}
		// signed narrowing (e.g. int -> int32/rune): require in range
		bs.assertG(fmt.Sprintf("ovf.%d", e.ordinal("ovf")), "ovf", and(app("<=", lo, v.C[0]), app("<=", v.C[0], hi)), "narrowing conversion", x)
		e.regs[x] = Val{to, v.C}
	case isString(from) && isString(to):
		e.regs[x] = Val{to, v.C}
	case isString(from) && isByteSlice(to):
		// fresh backing array with the same content
		r := e.allocRef(bs.st, bs.g, x.Name())
		k := elemKey(tByte, 0)
		h := e.heapKey(bs.st, k, "(Array Int (Array Int Int))")
		nh := e.fresh("M.bytes", "(Array Int (Array Int Int))")
		if v.C[1] == "0" {
			e.def(eq(nh, app("store", h, r, v.C[0])))
		} else {
			na := e.fresh("conv", SArr)
			q := e.freshName("k")
			e.def(fmt.Sprintf("(forall ((%s Int)) (! (=> (and (<= 0 %s) (< %s %s)) (= (select %s %s) (select %s (+ %s %s)))) :pattern ((select %s %s))))", q, q, q, v.C[2], na, q, v.C[0], v.C[1], q, na, q))
			e.def(eq(nh, app("store", h, r, na)))
		}
		bs.st.m[k] = nh
		bs.setReg(x, Val{to, []string{ite(eq(v.C[2], "0"), r, r), "0", v.C[2], v.C[2]}})
	case isByteSlice(from) && isString(to):
		s := e.bytesOf(bs.st, v)
		// snapshot: later writes to the slice must not change the string
		na := e.fresh("snap", SArr)
		e.def(eq(na, s.C[0]))
		bs.setReg(x, Val{to, []string{na, s.C[1], s.C[2]}})
	default:
		if len(flatten(from)) == len(flatten(to)) {
			e.regs[x] = Val{to, v.C}
			return
		}
		unsupp("conversion %s -> %s", from, to)
	}
}

func withinRange(from, to types.Type) bool {
	flo, fhi, ok1 := intRange(from)
	tlo, thi, ok2 := intRange(to)
	if !ok1 || !ok2 {
		return false
	}
	return cmpLit(tlo, flo) <= 0 && cmpLit(fhi, thi) <= 0
}

func cmpLit(a, b string) int {
	pa, pb := parseLit(a), parseLit(b)
	return pa.Cmp(pb)
}

func (bs *blockState) phi(x *ssa.Phi) {
	e := bs.e
	// incoming edges recorded in order of processing; match by predecessor
	in := e.inEdges[bs.b]
	v := e.freshVal(x.Name(), x.Type())
	for i, p := range bs.b.Preds {
		for _, ed := range in {
			if ed.from == p {
				// value of operand i on that edge
				ov := bs.val(x.Edges[i])
				e.def(imp(ed.guard, valEq(v, ov)))
			}
		}
	}
	e.regs[x] = v
}

func (bs *blockState) rangeInstr(x *ssa.Range) {
	e := bs.e
	t := x.X.Type()
	if isString(t) {
		k := "it:" + x.Name()
		e.sorts[k] = SInt
		bs.st.m[k] = "0"
		e.iterStr[x] = bs.val(x.X)
		return
	}
	if _, ok := t.Underlying().(*types.Map); ok {
		bs.rangeMap(x)
		return
	}
	unsupp("range over %s", t)
}

func (bs *blockState) next(x *ssa.Next) {
	e := bs.e
	if x.IsString {
		k := "it:" + x.Iter.Name()
		s := e.iterStr[x.Iter]
		pos := bs.st.m[k]
		ok := e.fresh(x.Name()+".ok", SBool)
		e.def(eq(ok, app("<", pos, s.C[2])))
		b0 := e.fresh(x.Name()+".b0", SInt)
		e.def(eq(b0, app("select", s.C[0], add(s.C[1], pos))))
		r := e.fresh(x.Name()+".rune", SInt)
		w := e.fresh(x.Name()+".width", SInt)
		// DESIGN 3.2: exact for ASCII, over-approximate otherwise
		e.def(imp(ok, and(app("<=", "0", b0), app("<=", b0, "255"))))
		e.def(imp(and(ok, app("<", b0, "128")), and(eq(r, b0), eq(w, "1"))))
		e.def(imp(and(ok, app(">=", b0, "128")), and(app(">=", r, "128"), app("<=", r, "1114111"), app("<=", "1", w), app("<=", w, "4"), app("<=", add(pos, w), s.C[2]))))
		for d := 1; d <= 3; d++ {
			// every byte of a multi-byte sequence (or the single invalid byte) is >= 0x80
			e.def(imp(and(ok, app(">=", b0, "128"), app(">", w, fmt.Sprint(d))), app(">=", app("select", s.C[0], add(add(s.C[1], pos), fmt.Sprint(d))), "128")))
		}
		e.def(imp(not(ok), and(eq(r, "0"), eq(w, "0"))))
		np := e.fresh("it."+x.Iter.Name(), SInt)
		e.def(eq(np, ite(ok, add(pos, w), pos)))
		bs.st.m[k] = np
		e.regs[x] = Val{x.Type(), []string{ok, ite(ok, pos, "0"), r}}
		return
	}
	bs.nextMap(x)
}

func (bs *blockState) panicInstr(x *ssa.Panic) {
	e := bs.e
	pv := bs.val(x.X)
	bs.raise(pv, "explicit panic", x)
	_ = e
}

// raise transfers control to the exceptional exit.
func (bs *blockState) raise(pv Val, why string, ins ssa.Instruction) {
	e := bs.e
	if e.fn.Recover != nil || len(e.defers) > 0 {
		bs.raiseWithDefers(pv, why, ins)
		bs.dead = true
		return
	}
	if e.spec == nil || !e.spec.MayPanic {
		bs.assertG(fmt.Sprintf("nopanic.%d", e.ordinal("nopanic")), "xpost", "false", why+" reachable but contract has no ensures_on_panic", ins)
	} else {
		e.panics = append(e.panics, edge{guard: bs.g, st: bs.st.clone(), pv: pv, from: bs.b})
	}
	bs.dead = true
}

// isPrivateCell: an escaping local whose address only flows into loads, stores and closures
// created by the same function (which do not assign it: checked on the closure bodies).
func isPrivateCell(a *ssa.Alloc) bool {
	if a.Referrers() == nil {
		return false
	}
	for _, r := range *a.Referrers() {
		switch x := r.(type) {
		case *ssa.Store:
			if x.Val == ssa.Value(a) {
				return false
			}
		case *ssa.UnOp, *ssa.DebugRef:
		case *ssa.MakeClosure:
			fn := x.Fn.(*ssa.Function)
			for i, b := range x.Bindings {
				if b == ssa.Value(a) && closureWrites(fn, fn.FreeVars[i]) {
					return false
				}
			}
		default:
			return false
		}
	}
	return true
}

func closureWrites(fn *ssa.Function, fv *ssa.FreeVar) bool {
	return addrWritten(fv)
}

// addrWritten: the location (or a part of it) addressed by v may be assigned through v.
func addrWritten(v ssa.Value) bool {
	if v.Referrers() == nil {
		return false
	}
	for _, r := range *v.Referrers() {
		switch x := r.(type) {
		case *ssa.UnOp, *ssa.DebugRef:
		case *ssa.Store:
			if x.Addr == v {
				return true
			}
			return true // the address itself escapes into memory
		case *ssa.FieldAddr:
			if addrWritten(x) {
				return true
			}
		case *ssa.IndexAddr:
			if addrWritten(x) {
				return true
			}
		case *ssa.MakeClosure:
			inner := x.Fn.(*ssa.Function)
			for i, b := range x.Bindings {
				if b == v && addrWritten(inner.FreeVars[i]) {
					return true
				}
			}
		default:
			return true
		}
	}
	return false
}

// globalInitNonNil: the package initialiser stores the address of a fresh object into g.
func globalInitNonNil(g *ssa.Global) bool {
	init := g.Pkg.Func("init")
	if init == nil {
		return false
	}
	for _, b := range init.Blocks {
		for _, ins := range b.Instrs {
			if s, ok := ins.(*ssa.Store); ok && s.Addr == ssa.Value(g) {
				switch v := s.Val.(type) {
				case *ssa.Alloc:
					return true
				case *ssa.MakeClosure, *ssa.Function:
					return true
				default:
					_ = v
				}
			}
		}
	}
	return false
}

// globalInitErrorsNew: the package initialiser stores errors.New(...) / fmt.Errorf(...) into g.
func globalInitErrorsNew(g *ssa.Global) bool {
	init := g.Pkg.Func("init")
	if init == nil {
		return false
	}
	for _, b := range init.Blocks {
		for _, ins := range b.Instrs {
			if s, ok := ins.(*ssa.Store); ok && s.Addr == ssa.Value(g) {
				if c, ok := s.Val.(*ssa.Call); ok {
					if f := c.Call.StaticCallee(); f != nil && f.Pkg != nil && (f.Pkg.Pkg.Path() == "errors" && f.Name() == "New" || f.Pkg.Pkg.Path() == "fmt" && f.Name() == "Errorf" || f.Pkg.Pkg.Path() == "reflect" && f.Name() == "TypeOf") {
						return true
					}
				}
			}
		}
	}
	return false
}

type roArray struct {
	a     *ssa.Alloc
	elemT types.Type
}

// isReadOnlyLiteral: the backing array of a slice literal that is only initialised, measured and read
// (e.g. `for _, t := range []string{"a", "b"}`): nothing else can write to it.
func isReadOnlyLiteral(a *ssa.Alloc) bool {
	if a.Comment != "slicelit" || a.Referrers() == nil {
		return false
	}
	readOnlyAddr := func(ia *ssa.IndexAddr, initOK bool) bool {
		for _, r := range *ia.Referrers() {
			switch x := r.(type) {
			case *ssa.UnOp, *ssa.DebugRef:
			case *ssa.Store:
				if !initOK || x.Addr != ssa.Value(ia) {
					return false
				}
			default:
				return false
			}
		}
		return true
	}
	for _, r := range *a.Referrers() {
		switch x := r.(type) {
		case *ssa.IndexAddr:
			if !readOnlyAddr(x, true) {
				return false
			}
		case *ssa.Slice:
			if !sliceReadOnly(x, 0) {
				return false
			}
		case *ssa.DebugRef:
		default:
			return false
		}
	}
	return true
}

// sliceReadOnly: every use of the slice value only measures it, reads its elements, or parks it in
// a non-escaping local that is itself only used that way.
func sliceReadOnly(v ssa.Value, depth int) bool {
	if depth > 3 || v.Referrers() == nil {
		return false
	}
	for _, r := range *v.Referrers() {
		switch y := r.(type) {
		case *ssa.IndexAddr:
			for _, r3 := range *y.Referrers() {
				switch r3.(type) {
				case *ssa.UnOp, *ssa.DebugRef:
				default:
					return false
				}
			}
		case *ssa.Call:
			if b, ok := y.Call.Value.(*ssa.Builtin); !ok || b.Name() != "len" {
				return false
			}
		case *ssa.Store:
			al, ok := y.Addr.(*ssa.Alloc)
			if !ok || al.Heap || y.Val != v {
				return false
			}
			for _, r4 := range *al.Referrers() {
				switch z := r4.(type) {
				case *ssa.Store:
					if z != y {
						return false
					}
				case *ssa.UnOp:
					if !sliceReadOnly(z, depth+1) {
						return false
					}
				case *ssa.DebugRef:
				default:
					return false
				}
			}
		case *ssa.DebugRef:
		default:
			return false
		}
	}
	return true
}
