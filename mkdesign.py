#!/usr/bin/env python3
# mkdesign.py: regenerate section 0 of DESIGN.md from design_status.md, the evidence files and seeded/*/meta.json
import json,os,re,glob
st=open('/verif/design_status.md').read()
# obligations
parts=[]
for f in sorted(glob.glob('/verif/evidence/C*.json')):
    d=json.load(open(f)); c=d['coverage']
    extra=''
    if c.get('bounded'): extra=' (+%d bounded harness, not counted)'%len(c['bounded'])
    kf=len(c.get('known_findings_hit') or [])
    if kf: extra+=' (+%d open findings)'%kf
    parts.append('%s %d%s'%(d['property_id'],c['obligations'],extra))
obl='Obligations discharged on the current tree (quick tier; every one by an SMT\nsolver, none assumed): '+', '.join(parts)+'.'
rows=[];missed=[]
for s in sorted(os.listdir('/verif/seeded')):
    m=json.load(open('/verif/seeded/%s/meta.json'%s))
    diff=open('/verif/seeded/%s/patch.diff'%s).read()
    files=sorted(set(re.findall(r'^\+\+\+ b/(\S+)',diff,re.M)))
    d=m.get('detected_by') or {}
    if m.get('patch_applies_to_current_tree') is False:
        rows.append((s,m['property'],', '.join(files),'— (patch no longer applies after a `fix:` commit; see the `-rebased` twin)','')); continue
    if d.get('detected'):
        obs=[o.replace('VIOLATION property=','').split(' replay=')[-1] for o in d['obligations']]
        obs=[re.sub(r'^/verif/replays/[A-Z0-9]+-','',o).replace('.json','') for o in obs]
        rows.append((s,m['property'],', '.join(files),' '.join(d['checks']),'; '.join('`%s`'%o for o in obs[:2])))
    else:
        rows.append((s,m['property'],', '.join(files),'**not detected**','')); missed.append(s)
t='| seeded change | property | files | reported by | first failing obligations |\n|---|---|---|---|---|\n'
for r in rows: t+='| %s | %s | %s | %s | %s |\n'%r
ml=open('/verif/design_missed.md').read() if os.path.exists('/verif/design_missed.md') else ''
st=st.replace('OBLCOUNT',obl).replace('SEEDTABLE',t).replace('MISSEDLIST',ml)
d=open('/verif/DESIGN.md').read()
i=d.index('## 0. Implementation status')
j=d.index('---------------------------------------------------------------------------',i)
d=d[:i]+st.rstrip('\n')+'\n\n'+d[j:]
open('/verif/DESIGN.md','w').write(d)
print('seeds:',len(rows),'missed:',missed)
