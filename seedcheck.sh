#!/bin/bash
# seedcheck.sh <PROP> <mutA|mutB> : confirm a seeded change in a scratch worktree and file it under /verif/seeded/
export GOFLAGS=-mod=mod GOPROXY=off GOSUMDB=off GOTOOLCHAIN=local
P=$1; M=$2; SRC=${SRCBASE:-/tmp/wt}/$P.out; WT=/tmp/sc/$P$M
rm -rf $WT; mkdir -p /tmp/sc; git -C /repo worktree prune; git -C /repo worktree add --detach $WT HEAD >/dev/null 2>&1 || { echo "worktree failed"; exit 2; }
cleanup() { git -C /repo worktree remove --force $WT >/dev/null 2>&1; rm -rf $WT; }
demo=$SRC/${M}_demo_test.go
place=$(grep -m1 -i "place in:" $demo | sed 's/.*place in: *//; s/ .*//; s#^/##')
[ -z "$place" ] && place=test
[ "$place" = "." ] && place=""
dst=$WT/$place/zz_demo_${M}_test.go
res=()
cd $WT
if ! git apply --check $SRC/$M.diff 2>/dev/null; then
  if git apply --3way $SRC/$M.diff >/dev/null 2>&1; then git diff HEAD > /tmp/sc/$P$M.rebased.diff; git checkout -q -- . ; git reset -q; PATCH=/tmp/sc/$P$M.rebased.diff; else echo "PATCH DOES NOT APPLY"; cleanup; exit 1; fi
else PATCH=$SRC/$M.diff; fi
# 1. demo on unchanged code
cp $demo $dst
tname=$(grep -o "func Test[A-Za-z0-9_]*" $dst | sed 's/func //' | paste -sd'|')
( cd $WT/$place && go test -vet=off -count=1 -timeout 300s -run "^($tname)\$" . ) > /tmp/sc/$P$M.demo_clean.log 2>&1; r1=$?
rm $dst
# 2. suite with change
git apply $PATCH || { echo "apply failed"; cleanup; exit 1; }
( go build ./... && go test -vet=off -count=1 -timeout 25m ./... ) > /tmp/sc/$P$M.suite.log 2>&1; r2=$?
# 3. demo with change
cp $demo $dst
( cd $WT/$place && go test -vet=off -count=1 -timeout 300s -run "^($tname)\$" . ) > /tmp/sc/$P$M.demo_mut.log 2>&1; r3=$?
echo "$P $M: demo_clean_exit=$r1 suite_with_change_exit=$r2 demo_with_change_exit=$r3 (want 0 0 nonzero)"
if [ $r1 -eq 0 ] && [ $r2 -eq 0 ] && [ $r3 -ne 0 ]; then
  D=/verif/seeded/$P-$M; mkdir -p $D
  cp $PATCH $D/patch.diff; cp $demo $D/demo_test.go; cp $SRC/$M.md $D/notes.md 2>/dev/null
  python3 - "$P" "$M" "$place" "$D" <<'PY'
import json,sys
P,M,place,D=sys.argv[1:5]
notes=open(D+'/notes.md').read() if __import__('os').path.exists(D+'/notes.md') else ''
json.dump({"property":P,"id":P+"-"+M,"demo_package_dir":place or ".",
 "needs":"see notes.md (written by the independent sub-agent that produced the change)",
 "confirmed":{"demo_passes_on_unchanged_HEAD":True,"full_suite_passes_with_change":True,"demo_fails_with_change":True,
   "how":"seedcheck.sh in a scratch git worktree of /repo HEAD under /tmp/sc (removed afterwards): go test of the demo without the patch; git apply; go build ./... && go test -vet=off -count=1 ./...; go test of the demo with the patch"},
 "detected_by":None}, open(D+'/meta.json','w'),indent=1)
PY
  echo "KEPT $D"
else
  tail -5 /tmp/sc/$P$M.demo_clean.log /tmp/sc/$P$M.suite.log /tmp/sc/$P$M.demo_mut.log
fi
cleanup
