#!/bin/bash
# seedrun.sh [seed-id ...]: apply each confirmed seeded change under /verif/seeded to /repo, run the check of its
# property (all checks if that one stays silent), record what was reported in meta.json (detected_by), undo the change.
# /repo must be clean (contract edits committed) before this is run.
cd /verif
if [ -n "$(git -C /repo status --porcelain)" ]; then echo "/repo has uncommitted changes: commit them first"; exit 2; fi
seeds="$@"; [ -z "$seeds" ] && seeds=$(ls seeded)
for s in $seeds; do
  d=seeded/$s; [ -f $d/patch.diff ] || continue
  prop=$(python3 -c "import json;print(json.load(open('$d/meta.json'))['property'])")
  if ! git -C /repo apply --check $PWD/$d/patch.diff 2>/dev/null; then
    python3 - "$d" <<'PY'
import json,sys
p=sys.argv[1]+'/meta.json'; m=json.load(open(p))
m['patch_applies_to_current_tree']=False
m['detected_by']=m.get('detected_by') if isinstance(m.get('detected_by'),dict) and m['detected_by'].get('on_tree_before_fixes') else {"status":"patch no longer applies to the repaired tree (see the -rebased variant where one exists)"}
json.dump(m,open(p,'w'),indent=1)
PY
    echo "$s: patch does not apply"; continue
  fi
  git -C /repo apply $PWD/$d/patch.diff
  out=$(./check $prop 2>&1); viol=$(echo "$out" | grep "^VIOLATION" | sed 's/.*obligation=//; s/ no-failing-input-found//' | tr '\n' ';')
  by=$prop
  if [ -z "$viol" ]; then
    by=""
    # the checks whose functions live in the files the change touches
    related=$(python3 /verif/seedrelated.py "$d/patch.diff")
    for other in $related; do
      [ "$other" = "$prop" ] && continue
      o2=$(./check $other 2>&1); v2=$(echo "$o2" | grep "^VIOLATION" | sed 's/.*obligation=//; s/ no-failing-input-found//' | tr '\n' ';')
      if [ -n "$v2" ]; then by="$by $other"; viol="$viol$v2"; fi
    done
  fi
  git -C /repo checkout -- .
  python3 - "$d" "$by" "$viol" <<'PY'
import json,sys
p=sys.argv[1]+'/meta.json'; m=json.load(open(p))
m['patch_applies_to_current_tree']=True
by=sys.argv[2].split(); obs=[o for o in sys.argv[3].split(';') if o]
m['detected_by']={"checks":by,"obligations":obs[:8],"detected":bool(obs)}
json.dump(m,open(p,'w'),indent=1)
PY
  echo "$s: ${by:-MISSED} $(echo $viol | cut -c1-160)"
done
# evidence files were rewritten by the runs on changed code: refresh them on the clean tree
./runall.sh >/dev/null 2>&1
