#!/usr/bin/env python3
# find a small set of assertions making an SMT file unsat (for debugging vacuity)
import subprocess,sys
f=sys.argv[1]
lines=open(f).read().split('\n')
def run(ls,t=5):
    open('/tmp/core_tmp.smt2','w').write('\n'.join(ls))
    try: return subprocess.run(['z3-new','-T:%d'%t,'/tmp/core_tmp.smt2'],capture_output=True,text=True,timeout=t+2).stdout.split('\n')[0]
    except subprocess.TimeoutExpired: return 'timeout'
print('initial',run(lines))
cur=lines[:]
k=len(cur)-1
while k>=0:
    if cur[k].startswith('(assert'):
        t=cur[:k]+cur[k+1:]
        if run(t)=='unsat': cur=t
    k-=1
print('\n'.join(x[:400] for x in cur if x.startswith('(assert')))
